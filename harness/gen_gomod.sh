#!/bin/sh
# Regenerate the harness go.mod/go.sum from /repo's so that module selection is identical
# and nothing needs to be fetched.
set -e
cd "$(dirname "$0")"
{
  echo "module verif/harness"
  echo
  sed -n '/^go /p' /repo/go.mod
  echo
  echo "require github.com/elnosh/gonuts v0.0.0"
  echo
  sed -n '/^require (/,/^)/p' /repo/go.mod
  echo
  sed -n '/^replace /p' /repo/go.mod
  echo "replace github.com/elnosh/gonuts => /repo"
} > go.mod.new
if ! cmp -s go.mod.new go.mod; then mv go.mod.new go.mod; else rm go.mod.new; fi
cp /repo/go.sum go.sum
