#!/bin/sh
# Regenerate the harness go.mod/go.sum from /repo's so that module selection is identical
# and nothing needs to be fetched.
set -e
cd "$(dirname "$0")"
R=${VERIF_REPO:-/repo}   # the registered checks always use /repo; a background sweep may point at a snapshot
{
  echo "module verif/harness"
  echo
  sed -n '/^go /p' $R/go.mod
  echo
  echo "require github.com/elnosh/gonuts v0.0.0"
  echo
  sed -n '/^require (/,/^)/p' $R/go.mod
  echo
  sed -n '/^replace /p' $R/go.mod
  echo "replace github.com/elnosh/gonuts => $R"
} > go.mod.new
if ! cmp -s go.mod.new go.mod; then mv go.mod.new go.mod; else rm go.mod.new; fi
cp $R/go.sum go.sum
