// Package wworld runs real gonuts wallets against real in-process mints: an http.RoundTripper
// installed as http.DefaultTransport dispatches http://<host>/... to the mint's handler, records
// every request and response and scans every request body for blinding factors. After every
// wallet operation the projection of all wallets (stored proofs with their mint-side state,
// reported balances, counters), outstanding tokens, mint balances and the Lightning ledger is
// written to the trace for WalletTrace.tla.
package wworld

import (
	"bytes"
	"encoding/hex"
	"encoding/json"
	"fmt"
	"io"
	"net/http"
	"net/http/httptest"
	"os"
	"path/filepath"
	"regexp"
	"sort"
	"strings"
	"sync"
	"time"

	"github.com/btcsuite/btcd/btcutil/hdkeychain"
	"github.com/btcsuite/btcd/chaincfg"
	"github.com/elnosh/gonuts/cashu"
	"github.com/elnosh/gonuts/cashu/nuts/nut05"
	"github.com/elnosh/gonuts/cashu/nuts/nut11"
	"github.com/elnosh/gonuts/cashu/nuts/nut13"
	"github.com/elnosh/gonuts/crypto"
	"github.com/elnosh/gonuts/wallet"
	wstorage "github.com/elnosh/gonuts/wallet/storage"
	"github.com/tyler-smith/go-bip39"

	"verif/harness/dbwrap"
	"verif/harness/lnmodel"
	"verif/harness/sched"
	"verif/harness/world"
)

// ---------- transport ----------

type ReqRec struct {
	Seq    int    `json:"seq"`
	Host   string `json:"host"`
	Method string `json:"method"`
	Path   string `json:"path"`
	Body   string `json:"-"`
	Status int    `json:"status"`
	Panic  string `json:"panic,omitempty"`
	Resp   string `json:"-"`
	Gid    int64  `json:"-"`
}

type Transport struct {
	mu       sync.Mutex
	handlers map[string]http.Handler
	owners   map[string]*WW
}

var theTransport = &Transport{handlers: map[string]http.Handler{}, owners: map[string]*WW{}}

func init() { http.DefaultTransport = theTransport }

func (t *Transport) Register(host string, h http.Handler, owner *WW) {
	t.mu.Lock()
	t.handlers[host] = h
	t.owners[host] = owner
	t.mu.Unlock()
}

func (t *Transport) Unregister(host string) {
	t.mu.Lock()
	delete(t.handlers, host)
	delete(t.owners, host)
	t.mu.Unlock()
}

func (t *Transport) RoundTrip(req *http.Request) (*http.Response, error) {
	t.mu.Lock()
	h := t.handlers[req.URL.Host]
	owner := t.owners[req.URL.Host]
	t.mu.Unlock()
	if h == nil {
		return nil, fmt.Errorf("verif transport: no such host %q", req.URL.Host)
	}
	var body []byte
	if req.Body != nil {
		body, _ = io.ReadAll(req.Body)
		req.Body.Close()
	}
	if owner != nil && owner.Sched != nil {
		// wallet crash injection at HTTP call boundaries
		if err := owner.Sched.Point("http", req.Method+" "+req.URL.Path); err != nil {
			return nil, err
		}
	}
	rec := httptest.NewRecorder()
	r2 := httptest.NewRequest(req.Method, req.URL.String(), bytes.NewReader(body))
	r2.Header = req.Header.Clone()
	panicMsg := ""
	func() {
		defer func() {
			if r := recover(); r != nil {
				panicMsg = fmt.Sprint(r)
				rec = httptest.NewRecorder()
				rec.WriteHeader(500)
			}
		}()
		h.ServeHTTP(rec, r2)
	}()
	res := rec.Result()
	respBody, _ := io.ReadAll(res.Body)
	res.Body = io.NopCloser(bytes.NewReader(respBody))
	if owner != nil {
		owner.recordReq(ReqRec{Host: req.URL.Host, Method: req.Method, Path: req.URL.Path, Body: string(body), Status: res.StatusCode,
			Panic: panicMsg, Resp: string(respBody), Gid: sched.Gid()})
	}
	if owner != nil && owner.Sched != nil {
		// the reply may be lost too: crash after the mint executed the request
		if err := owner.Sched.Point("http-reply", req.Method+" "+req.URL.Path); err != nil {
			return nil, err
		}
	}
	return res, nil
}

// ---------- wallet world ----------

type MintSite struct {
	Name string
	Host string
	URL  string
	W    *world.World
}

type WalletSite struct {
	Name     string
	Dir      string
	W        *wallet.Wallet
	DB       *dbwrap.WalletDB
	Raw      wstorage.WalletDB
	Mnemonic string
	Default  string
	Dead     bool // the wallet process was killed mid-operation; only a restore from the mnemonic follows
	// blinding factors and output secrets this wallet can derive: B_ -> (secret id, r hex, keyset, counter)
}

type derived struct {
	Wallet  string
	Secret  string
	R       string
	Keyset  string
	Counter uint32
}

type TokenRec struct {
	ID     string
	Mint   string
	Proofs cashu.Proofs
	From   string
	Locked string // "", "p2pk:<wallet>", "htlc"
	Taken  bool
	Token  cashu.Token
}

type WW struct {
	ID       int
	Dir      string
	Net      *lnmodel.Network
	Mints    map[string]*MintSite
	Wallets  map[string]*WalletSite
	Tokens   map[string]*TokenRec
	nTok     int
	DleqLog  []map[string]any // NUT-12 facts of tokens handed out and proofs stored (C10)
	dleqSeen map[string]bool
	Sched    Sched
	crashed  chan struct{} // closed when the running operation's wallet process has been killed
	mu       sync.Mutex
	Reqs     []ReqRec
	seq      int
	Events   []Event
	nEv      int
	secIDs   map[string]string
	nSec     int
	// knowledge for the privacy scan
	knownR     map[string]string  // r hex -> description
	byB        map[string]derived // B_ -> derivation
	Leaks      []map[string]any
	scanned    int
	MintedIn   map[string]uint64 // per mint: sats paid in from outside for mint quotes
	MeltedOut  map[string]uint64 // per mint: sats of outside invoices paid by melts
	melts      map[string]*meltRec
	DeriveUpTo uint32
	Retired    map[string]uint64 // per mint: live value held by wallets that left the world
	Seed       int64
	OpTimeout  time.Duration
}

type Sched interface {
	Point(kind, name string) error
}

type meltRec struct {
	Wallet string
	Mint   string
	Quote  string
	Hash   string
	Amt    uint64
}

type Event struct {
	Tr   int            `json:"tr"`
	I    int            `json:"i"`
	Ev   string         `json:"ev"`
	A    map[string]any `json:"a"`
	R    map[string]any `json:"r"`
	Post map[string]any `json:"post"`
	Reqs []any          `json:"reqs"`
}

func New(id int, dir string, seed int64) *WW {
	return &WW{ID: id, Dir: dir, Net: lnmodel.NewNetwork(), Mints: map[string]*MintSite{}, Wallets: map[string]*WalletSite{},
		dleqSeen: map[string]bool{}, Tokens: map[string]*TokenRec{}, secIDs: map[string]string{}, knownR: map[string]string{}, byB: map[string]derived{},
		MintedIn: map[string]uint64{}, MeltedOut: map[string]uint64{}, Retired: map[string]uint64{}, melts: map[string]*meltRec{}, DeriveUpTo: 320, Seed: seed,
		OpTimeout: 60 * time.Second}
}

func (ww *WW) recordReq(r ReqRec) {
	ww.mu.Lock()
	ww.seq++
	r.Seq = ww.seq
	ww.Reqs = append(ww.Reqs, r)
	ww.mu.Unlock()
}

func (ww *WW) AddMint(name string, fee uint, policy string) error {
	host := fmt.Sprintf("h%d-%s", ww.ID, name)
	w, err := world.New(world.Options{Dir: filepath.Join(ww.Dir, name), FeePpk: fee, FeeReserve: policy, Net: ww.Net, NodeName: name,
		Seed: ww.Seed + int64(len(ww.Mints)), WithServer: true, AutoNotify: true})
	if err != nil {
		return err
	}
	ms := &MintSite{Name: name, Host: host, URL: "http://" + host, W: w}
	ww.Mints[name] = ms
	theTransport.Register(host, w.Server.VerifHandler(), ww)
	return nil
}

// reRegister after a mint restart (new server object).
func (ww *WW) reRegister(ms *MintSite) {
	theTransport.Register(ms.Host, ms.W.Server.VerifHandler(), ww)
}

// AddWallet creates a wallet on its default mint. trust lists the other mints it adds to its list (nil: every mint of the
// world); a mint that is left out is an untrusted mint for this wallet until it receives a token from it without swapping.
func (ww *WW) AddWallet(name, defaultMint string, trust []string) error {
	dir := filepath.Join(ww.Dir, "w-"+name)
	ms := ww.Mints[defaultMint]
	var wrapped *dbwrap.WalletDB
	loadWalletMu.Lock()
	wallet.VerifLoadWrap = func(db wstorage.WalletDB) wstorage.WalletDB {
		wrapped = &dbwrap.WalletDB{Inner: db, Sched: ww.walletSched(name)}
		return wrapped
	}
	w, err := wallet.LoadWallet(wallet.Config{WalletPath: dir, CurrentMintURL: ms.URL})
	wallet.VerifLoadWrap = nil
	loadWalletMu.Unlock()
	if err != nil {
		return err
	}
	trusted := func(n string) bool {
		if trust == nil {
			return true
		}
		for _, t := range trust {
			if t == n {
				return true
			}
		}
		return false
	}
	for n, other := range ww.Mints {
		if n != defaultMint && trusted(n) {
			if _, err := w.AddMint(other.URL); err != nil {
				return err
			}
		}
	}
	ws := &WalletSite{Name: name, Dir: dir, W: w, DB: wrapped, Raw: wrapped.Inner, Mnemonic: w.Mnemonic(), Default: defaultMint}
	wrapped.Observe = func(op string, proofs cashu.Proofs) { ww.observeProofs(name, proofs) }
	ww.Wallets[name] = ws
	ww.deriveTable(ws)
	return nil
}

var loadWalletMu sync.Mutex

type wsched struct {
	ww   *WW
	name string
}

func (s wsched) Point(kind, name string) error {
	if s.ww.Sched != nil {
		return s.ww.Sched.Point(kind, name)
	}
	return nil
}

func (ww *WW) walletSched(name string) dbwrap.Sched { return wsched{ww, name} }

func (ww *WW) observeProofs(wname string, proofs cashu.Proofs) {
	ww.mu.Lock()
	defer ww.mu.Unlock()
	for _, p := range proofs {
		if p.DLEQ != nil && p.DLEQ.R != "" {
			ww.knownR[strings.ToLower(p.DLEQ.R)] = "stored by " + wname
		}
	}
}

// deriveTable precomputes, for every keyset of every mint, the wallet's deterministic outputs for
// counters 0..DeriveUpTo (the repository's own derivation, used for identification only).
func (ww *WW) deriveTable(ws *WalletSite) {
	seed := bip39.NewSeed(ws.Mnemonic, "")
	master, err := hdkeychain.NewMaster(seed, &chaincfg.MainNetParams)
	if err != nil {
		return
	}
	for _, ms := range ww.Mints {
		ms.W.RefreshKeysets()
		for _, ks := range ms.W.Reg.Keysets {
			ww.deriveKeyset(ws, master, ks.Real)
		}
	}
}

func (ww *WW) deriveKeyset(ws *WalletSite, master *hdkeychain.ExtendedKey, ksReal string) {
	path, err := nut13.DeriveKeysetPath(master, ksReal)
	if err != nil {
		return
	}
	ww.mu.Lock()
	defer ww.mu.Unlock()
	for c := uint32(0); c < ww.DeriveUpTo; c++ {
		sec, err1 := nut13.DeriveSecret(path, c)
		r, err2 := nut13.DeriveBlindingFactor(path, c)
		if err1 != nil || err2 != nil {
			continue
		}
		B_, _, err := crypto.BlindMessage(sec, r)
		if err != nil {
			continue
		}
		rh := hex.EncodeToString(r.Serialize())
		ww.knownR[rh] = fmt.Sprintf("derived %s/%s/%d", ws.Name, ksReal, c)
		ww.byB[hex.EncodeToString(B_.SerializeCompressed())] = derived{Wallet: ws.Name, Secret: sec, R: rh, Keyset: ksReal, Counter: c}
	}
}

// RefreshDerivations after a keyset rotation.
func (ww *WW) RefreshDerivations() {
	for _, ws := range ww.Wallets {
		ww.deriveTable(ws)
	}
}

func (ww *WW) Close() {
	for _, ws := range ww.Wallets {
		if ws.W != nil {
			ws.W.Shutdown()
		}
	}
	for _, ms := range ww.Mints {
		theTransport.Unregister(ms.Host)
		ms.W.Close()
	}
	os.RemoveAll(ww.Dir)
}

func (ww *WW) secID(secret string) string {
	ww.mu.Lock()
	defer ww.mu.Unlock()
	if id, ok := ww.secIDs[secret]; ok {
		return id
	}
	ww.nSec++
	id := fmt.Sprintf("s%d", ww.nSec)
	ww.secIDs[secret] = id
	return id
}

// ---------- privacy scan (C08) ----------

var hex64 = regexp.MustCompile(`[0-9a-fA-F]{64}`)

// scanNew inspects every request recorded since the last scan; returns facts per request.
func (ww *WW) scanNew() []any {
	ww.mu.Lock()
	reqs := ww.Reqs[ww.scanned:]
	ww.scanned = len(ww.Reqs)
	known := ww.knownR
	byB := ww.byB
	ww.mu.Unlock()
	out := []any{}
	for _, r := range reqs {
		leakedR := []string{}
		leakedSecret := []string{}
		hasRField := false
		if r.Method == "POST" {
			for _, m := range hex64.FindAllString(r.Body, -1) {
				if d, ok := known[strings.ToLower(m)]; ok {
					leakedR = append(leakedR, d)
				}
			}
			// decoded view: any "r" member inside a "dleq" object, and outputs whose secret travels along
			var v any
			if json.Unmarshal([]byte(r.Body), &v) == nil {
				walkJSON(v, func(path string, val any) {
					if strings.HasSuffix(path, ".dleq.r") {
						if s, ok := val.(string); ok && s != "" {
							hasRField = true
						}
					}
					if strings.HasSuffix(path, ".B_") {
						if s, ok := val.(string); ok {
							if d, ok := byB[s]; ok && strings.Contains(r.Body, d.Secret) {
								leakedSecret = append(leakedSecret, fmt.Sprintf("%s/%s/%d", d.Wallet, d.Keyset, d.Counter))
							}
						}
					}
				})
			}
		}
		sort.Strings(leakedR)
		outs := []any{}
		ep := endpointOf(r.Path)
		if r.Method == "POST" && (ep == "swap" || ep == "mint/bolt11" || ep == "melt/bolt11") {
			var body struct {
				Outputs []struct {
					B_ string `json:"B_"`
				} `json:"outputs"`
			}
			if json.Unmarshal([]byte(r.Body), &body) == nil {
				for _, o := range body.Outputs {
					if d, ok := byB[o.B_]; ok {
						m := ww.mintOfKeyset(d.Keyset)
						outs = append(outs, map[string]any{"w": d.Wallet, "ks": ww.ksAbs(m, d.Keyset), "c": int(d.Counter)})
					}
				}
			}
		}
		signed := r.Status == 200 && (ep == "swap" || ep == "mint/bolt11")
		// what a swap burns: inputs minus outputs, next to the fee the mint charges for those inputs (from its keysets)
		insum, outsum, fee := 0, 0, 0
		if r.Method == "POST" && ep == "swap" {
			var body struct {
				Inputs []struct {
					Amount uint64 `json:"amount"`
					Id     string `json:"id"`
				} `json:"inputs"`
				Outputs []struct {
					Amount uint64 `json:"amount"`
				} `json:"outputs"`
			}
			if json.Unmarshal([]byte(r.Body), &body) == nil {
				ppk := uint(0)
				for _, in := range body.Inputs {
					insum += int(in.Amount)
					for _, ms := range ww.Mints {
						for _, k := range ms.W.Reg.Keysets {
							if k.Real == in.Id {
								ppk += k.Fee
							}
						}
					}
				}
				for _, o := range body.Outputs {
					outsum += int(o.Amount)
				}
				fee = int((ppk + 999) / 1000)
			}
		}
		out = append(out, map[string]any{"method": r.Method, "path": ep, "status": r.Status, "panic": r.Panic != "", "outs": outs, "signed": signed,
			"insum": insum, "outsum": outsum, "fee": fee,
			"leaked_r": len(leakedR), "r_field": hasRField, "leaked_secret": len(leakedSecret), "bodylen": len(r.Body),
			"detail": strings.Join(uniq(leakedR, 3), "; ")})
	}
	return out
}

func uniq(s []string, n int) []string {
	out := []string{}
	seen := map[string]bool{}
	for _, x := range s {
		if !seen[x] {
			seen[x] = true
			out = append(out, x)
		}
		if len(out) >= n {
			break
		}
	}
	return out
}

func endpointOf(path string) string {
	parts := strings.Split(strings.TrimPrefix(path, "/v1/"), "/")
	switch {
	case len(parts) >= 3 && (parts[0] == "mint" || parts[0] == "melt") && parts[1] == "quote" && len(parts) == 4:
		return parts[0] + "/quote/{id}"
	case parts[0] == "keys" && len(parts) == 2:
		return "keys/{id}"
	}
	return strings.Join(parts, "/")
}

func walkJSON(v any, f func(path string, val any)) { walkJSONp("", v, f) }

func walkJSONp(p string, v any, f func(path string, val any)) {
	switch t := v.(type) {
	case map[string]any:
		for k, x := range t {
			walkJSONp(p+"."+k, x, f)
		}
	case []any:
		for _, x := range t {
			walkJSONp(p, x, f)
		}
	default:
		f(p, v)
	}
}

// ---------- projection ----------

func (ww *WW) mintState(mintName string, secret string) string {
	ms := ww.Mints[mintName]
	if ms == nil {
		return "nomint"
	}
	Y, err := crypto.HashToCurve([]byte(secret))
	if err != nil {
		return "unspent"
	}
	y := hex.EncodeToString(Y.SerializeCompressed())
	if u, err := ms.W.Raw.GetProofsUsed([]string{y}); err == nil && len(u) > 0 {
		return "spent"
	}
	if u, err := ms.W.Raw.GetPendingProofs([]string{y}); err == nil && len(u) > 0 {
		return "pending"
	}
	return "unspent"
}

func (ww *WW) mintOfKeyset(ksReal string) string {
	for name, ms := range ww.Mints {
		for _, k := range ms.W.Reg.Keysets {
			if k.Real == ksReal {
				return name
			}
		}
	}
	for _, ms := range ww.Mints {
		ms.W.RefreshKeysets()
	}
	for name, ms := range ww.Mints {
		for _, k := range ms.W.Reg.Keysets {
			if k.Real == ksReal {
				return name
			}
		}
	}
	return "?"
}

func (ww *WW) ksAbs(mintName, ksReal string) string {
	if ms := ww.Mints[mintName]; ms != nil {
		for _, k := range ms.W.Reg.Keysets {
			if k.Real == ksReal {
				return mintName + ":" + k.ID
			}
		}
	}
	return "?:" + ksReal
}

func (ww *WW) proofFacts(p cashu.Proof) map[string]any {
	m := ww.mintOfKeyset(p.Id)
	return map[string]any{"id": ww.secID(p.Secret), "amt": int(p.Amount), "mint": m, "ks": ww.ksAbs(m, p.Id), "mstate": ww.mintState(m, p.Secret),
		"dleq": p.DLEQ != nil, "locked": strings.HasPrefix(p.Secret, "[")}
}

func (ww *WW) Project() map[string]any {
	wallets := map[string]any{}
	for name, ws := range ww.Wallets {
		if ws.W == nil {
			continue
		}
		spend := []any{}
		for _, p := range ws.Raw.GetProofs() {
			spend = append(spend, ww.proofFacts(p))
		}
		pend := []any{}
		for _, dp := range ws.Raw.GetPendingProofs() {
			f := ww.proofFacts(cashu.Proof{Amount: dp.Amount, Id: dp.Id, Secret: dp.Secret, C: dp.C, DLEQ: dp.DLEQ})
			f["quote"] = dp.MeltQuoteId != ""
			pend = append(pend, f)
		}
		byMint := map[string]any{}
		for url, v := range ws.W.GetBalanceByMints() {
			byMint[ww.mintByURL(url)] = int(v)
		}
		ctr := map[string]any{}
		for _, list := range ws.Raw.GetKeysets() {
			for _, k := range list {
				m := ww.mintOfKeyset(k.Id)
				ctr[ww.ksAbs(m, k.Id)] = int(k.Counter)
			}
		}
		wallets[name] = map[string]any{"bal": int(ws.W.GetBalance()), "pend": int(ws.W.PendingBalance()), "bymint": byMint,
			"proofs": spend, "pending": pend, "ctr": ctr}
	}
	tokens := map[string]any{}
	for id, t := range ww.Tokens {
		if t.Taken {
			continue
		}
		ps := []any{}
		for _, p := range t.Proofs {
			ps = append(ps, ww.proofFacts(p))
		}
		tokens[id] = map[string]any{"mint": t.Mint, "from": t.From, "locked": t.Locked, "proofs": ps}
	}
	mints := map[string]any{}
	for name, ms := range ww.Mints {
		bal, err := ms.W.Mint.TotalBalance()
		if err != nil {
			bal = 0
		}
		fees := map[string]any{}
		active := ""
		for _, k := range ms.W.Reg.Keysets {
			fees[name+":"+k.ID] = int(k.Fee)
			if k.Active {
				active = name + ":" + k.ID
			}
		}
		in, out := ww.Net.Snapshot()
		mints[name] = map[string]any{"balance": int(bal), "fees": fees, "active": active, "minted_in": int(ww.MintedIn[name]),
			"melted_out": int(ww.MeltedOut[name]), "retired": int(ww.Retired[name]), "lnin": int(in[name] / 1000), "lnout": int(out[name] / 1000)}
	}
	return map[string]any{"wallets": wallets, "tokens": tokens, "mints": mints}
}

func (ww *WW) mintByURL(url string) string {
	for name, ms := range ww.Mints {
		if ms.URL == url {
			return name
		}
	}
	return "?" + url
}

func (ww *WW) emit(ev string, a, r map[string]any) *Event {
	if a == nil {
		a = map[string]any{"x": 0}
	}
	ww.nEv++
	ww.dleqAudit(fmt.Sprintf("%s#%d", ev, ww.nEv))
	e := Event{Tr: ww.ID, I: ww.nEv, Ev: ev, A: a, R: r, Post: ww.Project(), Reqs: ww.scanNew()}
	ww.Events = append(ww.Events, e)
	return &ww.Events[len(ww.Events)-1]
}

func (ww *WW) guard(fn func() error) (err error, pan bool, msg string) {
	done := make(chan struct{})
	go func() {
		defer close(done)
		defer func() {
			if r := recover(); r != nil {
				pan, msg = true, fmt.Sprint(r)
			}
		}()
		err = fn()
	}()
	select {
	case <-done:
	case <-ww.crashed:
		// the wallet process was killed inside fn (a nil channel never fires)
		return fmt.Errorf("wallet process killed"), false, ""
	case <-time.After(ww.OpTimeout):
		pan, msg = true, "timeout (operation hung)"
	}
	return
}

func result(err error, pan bool, msg string) map[string]any {
	r := map[string]any{"ok": err == nil && !pan, "panic": pan, "detail": ""}
	if err != nil {
		r["detail"] = err.Error()
	}
	if pan {
		r["detail"] = msg
	}
	return r
}

func WriteTrace(path string, evs []Event) error {
	f, err := os.OpenFile(path, os.O_CREATE|os.O_WRONLY|os.O_APPEND, 0o644)
	if err != nil {
		return err
	}
	defer f.Close()
	enc := json.NewEncoder(f)
	for _, e := range evs {
		if err := enc.Encode(e); err != nil {
			return err
		}
	}
	return nil
}

var _ = nut05.Unpaid
var _ = nut11.SIGALL

// EmitInit records the initial configuration.
func (ww *WW) EmitInit() {
	mints, wallets := []any{}, []any{}
	for n := range ww.Mints {
		mints = append(mints, n)
	}
	for n, w := range ww.Wallets {
		wallets = append(wallets, map[string]any{"name": n, "default": w.Default})
	}
	ww.emit("init", map[string]any{"mints": mints, "wallets": wallets}, map[string]any{"ok": true, "panic": false, "detail": ""})
}

// Retire removes a wallet from the world; the live value it still holds stays accounted for.
func (ww *WW) Retire(name string) {
	ws := ww.Wallets[name]
	if ws == nil {
		return
	}
	if ws.W != nil {
		seen := map[string]bool{}
		add := func(p cashu.Proof) {
			if seen[p.Secret] {
				return
			}
			seen[p.Secret] = true
			m := ww.mintOfKeyset(p.Id)
			if ww.mintState(m, p.Secret) != "spent" {
				ww.Retired[m] += p.Amount
			}
		}
		for _, p := range ws.Raw.GetProofs() {
			add(p)
		}
		for _, dp := range ws.Raw.GetPendingProofs() {
			add(cashu.Proof{Amount: dp.Amount, Id: dp.Id, Secret: dp.Secret})
		}
		ws.W.Shutdown()
	}
	delete(ww.Wallets, name)
	os.RemoveAll(ws.Dir)
}

// Emit records a driver-level event (no wallet operation) with the current projection.
func (ww *WW) Emit(ev string, a map[string]any) {
	ww.emit(ev, a, map[string]any{"ok": true, "panic": false, "detail": ""})
}
