package wworld

import (
	"encoding/hex"
	"fmt"
	"github.com/btcsuite/btcd/btcec/v2"
	"path/filepath"
	"strings"
	"sync"

	"github.com/decred/dcrd/dcrec/secp256k1/v4"
	"github.com/elnosh/gonuts/cashu"
	"github.com/elnosh/gonuts/cashu/nuts/nut05"
	"github.com/elnosh/gonuts/cashu/nuts/nut11"
	"github.com/elnosh/gonuts/cashu/nuts/nut12"
	"github.com/elnosh/gonuts/wallet"
	wstorage "github.com/elnosh/gonuts/wallet/storage"

	"verif/harness/dbwrap"
	"verif/harness/world"
)

type Op struct {
	Op     string   `json:"op"`
	W      string   `json:"w,omitempty"`
	M      string   `json:"m,omitempty"`
	To     string   `json:"to,omitempty"`
	From   string   `json:"from,omitempty"`
	Amt    uint64   `json:"amt,omitempty"`
	Fees   bool     `json:"fees,omitempty"`
	Tok    string   `json:"tok,omitempty"`
	Swap   bool     `json:"swap,omitempty"`
	Q      string   `json:"q,omitempty"`
	Pay    []string `json:"pay,omitempty"`
	Status []string `json:"status,omitempty"`
	Fee    uint     `json:"fee,omitempty"`
	V3     bool     `json:"v3,omitempty"`
	NoDleq bool     `json:"nodleq,omitempty"`
	SigAll bool     `json:"sigall,omitempty"` // sendlocked: lock with the SIG_ALL flag
	// crash: run Victim and kill the wallet process before its K-th storage write / HTTP call / HTTP reply (K = 0: only count them)
	Victim *Op `json:"victim,omitempty"`
	K      int `json:"k,omitempty"`
}

// crashAt freezes the calling goroutine for good at the k-th crash point: the wallet process is dead from there on.
type crashAt struct {
	mu      sync.Mutex
	k, n    int
	names   []string
	crashed chan struct{}
	at      string
}

func crashPoint(kind, name string) bool {
	return kind == "http" || kind == "http-reply" || (kind == "wdb" && !strings.HasPrefix(name, "Get"))
}

func (c *crashAt) Point(kind, name string) error {
	if !crashPoint(kind, name) {
		return nil
	}
	c.mu.Lock()
	c.n++
	c.names = append(c.names, kind+":"+name)
	hit := c.k > 0 && c.n == c.k
	if hit {
		c.at = kind + ":" + name
		close(c.crashed)
	}
	dead := c.k > 0 && c.n >= c.k
	c.mu.Unlock()
	if dead {
		select {} // killed: never returns
	}
	return nil
}

// seedLive is the mint-side truth of C19: the value of all outputs derived from the wallet's seed that a mint has
// signed and whose proof is not spent there (unspent or pending), whoever holds them now.
func (ww *WW) seedLive(wname string) (int, int) {
	ww.mu.Lock()
	byMint := map[string][]string{}
	secretOf := map[string]string{}
	for B_, d := range ww.byB {
		if d.Wallet == wname {
			m := ""
			for name, ms := range ww.Mints {
				for _, k := range ms.W.Reg.Keysets {
					if k.Real == d.Keyset {
						m = name
					}
				}
			}
			if m != "" {
				byMint[m] = append(byMint[m], B_)
				secretOf[B_] = d.Secret
			}
		}
	}
	ww.mu.Unlock()
	total, n := 0, 0
	for m, bs := range byMint {
		for _, B_ := range bs {
			sig, err := ww.Mints[m].W.Raw.GetBlindSignature(B_)
			if err != nil || sig.C_ == "" {
				continue
			}
			if ww.mintState(m, secretOf[B_]) != "spent" {
				total += int(sig.Amount)
				n++
			}
		}
	}
	return total, n
}

func (ww *WW) feeOf(mint string, proofs cashu.Proofs) int {
	ms := ww.Mints[mint]
	if ms == nil {
		return 0
	}
	ppk := uint(0)
	for _, p := range proofs {
		for _, k := range ms.W.Reg.Keysets {
			if k.Real == p.Id {
				ppk += k.Fee
			}
		}
	}
	return int((ppk + 999) / 1000)
}

func (ww *WW) newToken(mint, from, locked string, proofs cashu.Proofs, v3, nodleq bool) *TokenRec {
	ww.nTok++
	id := fmt.Sprintf("t%d", ww.nTok)
	cp := append(cashu.Proofs{}, proofs...)
	var tok cashu.Token
	url := ww.Mints[mint].URL
	if v3 {
		t, _ := cashu.NewTokenV3(append(cashu.Proofs{}, proofs...), url, cashu.Sat, !nodleq)
		tok = t
	} else {
		t, err := cashu.NewTokenV4(append(cashu.Proofs{}, proofs...), url, cashu.Sat, !nodleq)
		if err != nil {
			t3, _ := cashu.NewTokenV3(append(cashu.Proofs{}, proofs...), url, cashu.Sat, !nodleq)
			tok = t3
		} else {
			tok = t
		}
	}
	// the recipient decodes what the sender serialised
	if s, err := tok.Serialize(); err == nil {
		if dec, err := cashu.DecodeToken(s); err == nil {
			tok = dec
		}
	}
	tr := &TokenRec{ID: id, Mint: mint, Proofs: cp, From: from, Locked: locked, Token: tok}
	if !nodleq {
		ww.DleqLog = append(ww.DleqLog, ww.dleqFacts(mint, tok.Proofs(), "wallet-token", id)...)
	}
	ww.Tokens[id] = tr
	return tr
}

// dleqFacts lists, for each proof as the recipient of a token decodes it, the NUT-12 proof the sending wallet attached
// (e, s, r) with the key the mint publishes for that keyset and amount, and what the implementation's third-party
// verification says about it.  The reference verdict is computed by TLC (Bdhke!ProofDleqVerify).
func (ww *WW) dleqFacts(mint string, proofs cashu.Proofs, class, where string) []map[string]any {
	res := []map[string]any{}
	ms := ww.Mints[mint]
	if ms == nil {
		return res
	}
	for _, p := range proofs {
		var A string
		var key *secp256k1.PublicKey
		for _, k := range ms.W.Reg.Keysets {
			if k.Real == p.Id {
				if pk, ok := k.Keys[p.Amount]; ok {
					key = pk
					A = hex.EncodeToString(pk.SerializeCompressed())
				}
			}
		}
		f := map[string]any{"fn": "ProofDleqVerify", "secret": hex.EncodeToString([]byte(p.Secret)), "C": p.C, "A": A, "e": "", "s": "", "r": "", "want": "true", "class": class, "tr": ww.ID, "at": where}
		switch {
		case p.DLEQ == nil || key == nil:
			f["out"] = "missing"
		default:
			f["e"], f["s"], f["r"] = p.DLEQ.E, p.DLEQ.S, p.DLEQ.R
			f["out"] = "false"
			if nut12.VerifyProofDLEQ(p, key) {
				f["out"] = "true"
			}
		}
		res = append(res, f)
	}
	return res
}

func sum(p cashu.Proofs) int {
	t := 0
	for _, x := range p {
		t += int(x.Amount)
	}
	return t
}

// dleqAudit logs the NUT-12 proof of every proof a wallet stores (spendable or pending) the first time that
// (secret, e, s, r) combination is seen: what the wallet persists must still verify for a third party.
func (ww *WW) dleqAudit(where string) {
	for name, ws := range ww.Wallets {
		if ws.W == nil {
			continue
		}
		var all cashu.Proofs
		all = append(all, ws.Raw.GetProofs()...)
		for _, dp := range ws.Raw.GetPendingProofs() {
			all = append(all, cashu.Proof{Amount: dp.Amount, Id: dp.Id, Secret: dp.Secret, C: dp.C, DLEQ: dp.DLEQ})
		}
		for _, p := range all {
			if p.DLEQ == nil {
				continue
			}
			key := name + "|" + p.Secret + "|" + p.C + "|" + p.DLEQ.E + "|" + p.DLEQ.S + "|" + p.DLEQ.R
			if ww.dleqSeen[key] {
				continue
			}
			ww.dleqSeen[key] = true
			ww.DleqLog = append(ww.DleqLog, ww.dleqFacts(ww.mintOfKeyset(p.Id), cashu.Proofs{p}, "wallet-store:"+name, where)...)
		}
	}
}

// the preimage of every HTLC the wallets of a world make (known to all of them: the property at stake is bookkeeping)
const htlcPreimage = "aa11bb22cc33dd44ee55ff6600112233445566778899aabbccddeeff00112233"

// Exec runs one wallet-world operation and records the event.
func (ww *WW) Exec(op Op) *Event {
	ws := ww.Wallets[op.W]
	switch op.Op {
	case "mint":
		ms := ww.Mints[op.M]
		var minted uint64
		err, pan, msg := ww.guard(func() error {
			q, e := ws.W.RequestMint(op.Amt, ms.URL)
			if e != nil {
				return e
			}
			// an outside payer pays the invoice
			for _, mq := range ms.W.Net.Invoices {
				_ = mq
			}
			if bolt, e := decodeHash(q.Request); e == nil {
				ww.Net.SettleExternally(bolt)
			}
			minted, e = ws.W.MintTokens(q.Quote)
			if e == nil {
				ww.MintedIn[op.M] += op.Amt
			} else {
				// the invoice was paid although minting failed
				ww.MintedIn[op.M] += op.Amt
			}
			return e
		})
		r := result(err, pan, msg)
		r["amount"] = int(minted)
		return ww.emit("mint", map[string]any{"w": op.W, "m": op.M, "amt": int(op.Amt)}, r)

	case "send", "sendlocked", "sendhtlc":
		ms := ww.Mints[op.M]
		var proofs cashu.Proofs
		locked := ""
		err, pan, msg := ww.guard(func() error {
			var e error
			if op.Op == "send" {
				proofs, e = ws.W.Send(op.Amt, ms.URL, op.Fees)
			} else if op.Op == "sendhtlc" {
				// hash-locked ecash; with To set, additionally locked to that wallet's key (n_sigs 1)
				locked = "htlc"
				var tags *nut11.P2PKTags
				if op.To != "" {
					tags = &nut11.P2PKTags{NSigs: 1, Pubkeys: []*btcec.PublicKey{ww.Wallets[op.To].W.GetReceivePubkey()}}
					locked = "htlc:" + op.To
				}
				proofs, e = ws.W.HTLCLockedProofs(op.Amt, ms.URL, htlcPreimage, tags, op.Fees)
			} else {
				to := ww.Wallets[op.To]
				locked = "p2pk:" + op.To
				var tags *nut11.P2PKTags
				if op.SigAll {
					tags = &nut11.P2PKTags{Sigflag: nut11.SIGALL}
					locked += ":sigall"
				}
				proofs, e = ws.W.SendToPubkey(op.Amt, ms.URL, to.W.GetReceivePubkey(), tags, op.Fees)
			}
			return e
		})
		r := result(err, pan, msg)
		r["tok"], r["value"], r["n"], r["tokfee"], r["distinct"] = "", 0, 0, 0, true
		if err == nil && !pan {
			t := ww.newToken(op.M, op.W, locked, proofs, op.V3, op.NoDleq)
			seen := map[string]bool{}
			distinct := true
			for _, p := range proofs {
				if seen[p.Secret] {
					distinct = false
				}
				seen[p.Secret] = true
			}
			r["tok"], r["value"], r["n"], r["tokfee"], r["distinct"] = t.ID, sum(proofs), len(proofs), ww.feeOf(op.M, proofs), distinct
		}
		return ww.emit(op.Op, map[string]any{"w": op.W, "m": op.M, "amt": int(op.Amt), "fees": op.Fees, "to": op.To, "sigall": op.SigAll}, r)

	case "receive":
		t := ww.Tokens[op.Tok]
		var got uint64
		if t == nil || t.Taken {
			return ww.emit("receive", map[string]any{"w": op.W, "tok": op.Tok, "swap": op.Swap, "tokmint": "", "value": 0, "tokfee": 0, "locked": "", "lockclass": "plain", "default": "", "inlist": true},
				map[string]any{"ok": false, "panic": false, "detail": "no such token", "amount": 0, "skipped": true})
		}
		inList := false
		for _, u := range ws.W.TrustedMints() {
			if u == ww.Mints[t.Mint].URL {
				inList = true
			}
		}
		if op.Swap {
			// the Lightning payment of a swap to the trusted mint is made by the token's mint
			setScript(ww.Mints[t.Mint].W, "*", op.Pay, op.Status)
		}
		err, pan, msg := ww.guard(func() error {
			var e error
			if strings.HasPrefix(t.Locked, "htlc") {
				got, e = ws.W.ReceiveHTLC(t.Token, htlcPreimage)
			} else {
				got, e = ws.W.Receive(t.Token, op.Swap)
			}
			return e
		})
		setScriptClear(ww.Mints[t.Mint].W, "*")
		r := result(err, pan, msg)
		r["amount"] = int(got)
		r["skipped"] = false
		if err == nil && !pan {
			t.Taken = true
		}
		lockclass := "plain"
		if strings.HasPrefix(t.Locked, "htlc") {
			lockclass = "htlc"
		}
		if strings.HasPrefix(t.Locked, "p2pk") {
			lockclass = "p2pk"
			if strings.HasSuffix(t.Locked, ":sigall") {
				lockclass = "p2pk-sigall"
			}
		}
		return ww.emit("receive", map[string]any{"w": op.W, "tok": op.Tok, "swap": op.Swap, "tokmint": t.Mint, "value": sum(t.Proofs),
			"tokfee": ww.feeOf(t.Mint, t.Proofs), "locked": t.Locked, "lockclass": lockclass, "default": ws.Default, "inlist": inList}, r)

	case "melt":
		ms := ww.Mints[op.M]
		var state string
		qid := ""
		var quoteAmt, reserve uint64
		err, pan, msg := ww.guard(func() error {
			inv, e := ww.Net.NewInvoice("", op.Amt*1000)
			if e != nil {
				return e
			}
			mq, e := ws.W.RequestMeltQuote(inv.Request, ms.URL)
			if e != nil {
				return e
			}
			qid = mq.Quote
			quoteAmt, reserve = mq.Amount, mq.FeeReserve
			ww.melts[qid] = &meltRec{Wallet: op.W, Mint: op.M, Quote: qid, Hash: inv.Hash, Amt: op.Amt}
			setScript(ms.W, inv.Hash, op.Pay, op.Status)
			res, e := ws.W.Melt(qid)
			if res != nil {
				state = res.State.String()
			}
			return e
		})
		r := result(err, pan, msg)
		r["state"], r["q"], r["quoteamt"], r["reserve"] = state, ww.quoteID(qid), int(quoteAmt), int(reserve)
		ww.accountMelts()
		return ww.emit("melt", map[string]any{"w": op.W, "m": op.M, "amt": int(op.Amt)}, r)

	case "checkmelt":
		// check every melt quote of this wallet that the harness knows (the wallet API cannot look one up by id)
		states := map[string]any{}
		err, pan, msg := ww.guard(func() error {
			for qid, mr := range ww.melts {
				if mr.Wallet != op.W {
					continue
				}
				setScript(ww.Mints[mr.Mint].W, mr.Hash, nil, op.Status)
				res, e := ws.W.CheckMeltQuoteState(qid)
				if e != nil {
					return e
				}
				states[ww.quoteID(qid)] = res.State.String()
			}
			return nil
		})
		r := result(err, pan, msg)
		r["states"] = states
		ww.accountMelts()
		return ww.emit("checkmelt", map[string]any{"w": op.W}, r)

	case "reclaim":
		var amt uint64
		err, pan, msg := ww.guard(func() error {
			var e error
			amt, e = ws.W.ReclaimUnspentProofs()
			return e
		})
		r := result(err, pan, msg)
		r["amount"] = int(amt)
		// tokens whose proofs were reclaimed are no longer redeemable; they stay listed (their proofs show as spent)
		return ww.emit("reclaim", map[string]any{"w": op.W}, r)

	case "removespent":
		err, pan, msg := ww.guard(func() error { return ws.W.RemoveSpentProofs() })
		return ww.emit("removespent", map[string]any{"w": op.W}, result(err, pan, msg))

	case "mintswap":
		var amt uint64
		setScript(ww.Mints[op.From].W, "*", op.Pay, op.Status)
		err, pan, msg := ww.guard(func() error {
			var e error
			amt, e = ws.W.MintSwap(op.Amt, ww.Mints[op.From].URL, ww.Mints[op.To].URL)
			return e
		})
		setScriptClear(ww.Mints[op.From].W, "*")
		r := result(err, pan, msg)
		r["amount"] = int(amt)
		return ww.emit("mintswap", map[string]any{"w": op.W, "from": op.From, "to": op.To, "amt": int(op.Amt)}, r)

	case "rotate":
		ms := ww.Mints[op.M]
		ms.W.Exec(world.Op{Op: "rotate", Fee: op.Fee})
		ms.W.Events = nil
		ww.RefreshDerivations()
		return ww.emit("rotate", map[string]any{"m": op.M, "fee": int(op.Fee)}, map[string]any{"ok": true, "panic": false, "detail": ""})

	case "restore":
		return ww.opRestore(op)

	case "crash":
		c := &crashAt{k: op.K, crashed: make(chan struct{})}
		ww.Sched, ww.crashed = c, c.crashed
		v := *op.Victim
		ev := ww.Exec(v)
		ww.Sched, ww.crashed = nil, nil
		c.mu.Lock()
		n, at := c.n, c.at
		names := append([]string{}, c.names...)
		c.mu.Unlock()
		if at != "" {
			// the victim never returned: what the caller saw is nothing at all
			ev.Ev = "crash"
			ev.A = map[string]any{"w": v.W, "victim": v.Op, "k": op.K, "at": at}
			ev.R = map[string]any{"ok": true, "panic": false, "detail": "", "crashed": true, "points": n}
			ww.Wallets[v.W].Dead = true
		} else {
			ev.R["points"] = n
			ev.R["pointnames"] = names
		}
		return ev
	}
	panic("unknown wallet op " + op.Op)
}

func (ww *WW) quoteID(real string) string {
	if real == "" {
		return ""
	}
	return "q" + real[:6]
}

// accountMelts: sats of outside invoices that melts of each mint have paid (Lightning truth).
func (ww *WW) accountMelts() {
	tot := map[string]uint64{}
	for _, mr := range ww.melts {
		if p := ww.Net.PaymentOf(mr.Mint, mr.Hash); p != nil && p.Charged {
			tot[mr.Mint] += mr.Amt
		}
	}
	for m := range ww.Mints {
		ww.MeltedOut[m] = tot[m]
	}
}

func (ww *WW) opRestore(op Op) *Event {
	ws := ww.Wallets[op.W]
	mnemonic := ws.Mnemonic
	urls := []string{}
	for _, ms := range ww.Mints {
		urls = append(urls, ms.URL)
	}
	// the mint-side truth before anything is restored
	live, nlive := ww.seedLive(op.W)
	afterCrash := ws.Dead
	// the old device is gone (a killed wallet process is not shut down: its goroutine stays frozen where it died)
	if !ws.Dead {
		ws.W.Shutdown()
	}
	ws.W = nil
	ws.Dead = false
	ww.nTok++
	dir := filepath.Join(ww.Dir, fmt.Sprintf("w-%s-r%d", op.W, ww.nTok))
	var amt uint64
	err, pan, msg := ww.guard(func() error {
		var e error
		amt, e = wallet.Restore(dir, mnemonic, urls)
		return e
	})
	r := result(err, pan, msg)
	r["amount"] = int(amt)
	if err == nil && !pan {
		var wrapped *dbwrap.WalletDB
		loadWalletMu.Lock()
		wallet.VerifLoadWrap = func(db wstorage.WalletDB) wstorage.WalletDB {
			wrapped = &dbwrap.WalletDB{Inner: db, Sched: ww.walletSched(op.W)}
			return wrapped
		}
		w2, e := wallet.LoadWallet(wallet.Config{WalletPath: dir, CurrentMintURL: ww.Mints[ws.Default].URL})
		wallet.VerifLoadWrap = nil
		loadWalletMu.Unlock()
		if e != nil {
			r["ok"], r["detail"] = false, "load after restore: "+e.Error()
		} else {
			wrapped.Observe = func(o string, proofs cashu.Proofs) { ww.observeProofs(op.W, proofs) }
			for _, other := range ww.Mints {
				known := false
				for _, u := range w2.TrustedMints() {
					if u == other.URL {
						known = true
					}
				}
				if !known {
					w2.AddMint(other.URL)
				}
			}
			ws.W, ws.DB, ws.Raw, ws.Dir = w2, wrapped, wrapped.Inner, dir
		}
	}
	// the restore's own state checks make the mint look up in-flight payments: what is live may have changed under it
	livePost, _ := ww.seedLive(op.W)
	return ww.emit("restore", map[string]any{"w": op.W, "seedlive": live, "seedlivepost": livePost, "nseedlive": nlive, "aftercrash": afterCrash}, r)
}

func setScript(w *world.World, hash string, pay, status []string) {
	if len(pay) == 0 && len(status) == 0 {
		return
	}
	w.SetScript(hash, pay, status)
}

func setScriptClear(w *world.World, hash string) { w.ClearScript(hash) }

func decodeHash(request string) (string, error) {
	return world.PaymentHashOf(request)
}

var _ = nut05.Unpaid
var _ = hex.EncodeToString
