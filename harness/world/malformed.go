package world

import (
	"bytes"
	"encoding/hex"
	"encoding/json"
	"fmt"
	"net/http"
	"net/http/httptest"
	"strings"

	"github.com/decred/dcrd/dcrec/secp256k1/v4"
	"github.com/elnosh/gonuts/crypto"
)

// Structural mutations of valid requests, sent as hand-built JSON through the real HTTP handler
// (C06, C20). Every class here MUST be refused: 400 with a {detail, code} body, no panic, and the
// raw-store projection unchanged. The base request is built from live objects (an unspent proof,
// a paid quote, fresh outputs) so that a missing validation would show as an acceptance.

type malformedCase struct {
	Target string // swap | mint | melt | mintquote | meltquote | checkstate | restore
	Cls    string
	Body   string
	Path   string
	Method string
}

func (w *World) liveInput() map[string]any {
	for _, id := range w.Reg.OutOrder {
		o := w.Reg.Outputs[id]
		if !o.Signed {
			continue
		}
		si := w.Reg.Secrets[o.Sec]
		if si.Lock != "none" {
			continue
		}
		used, _ := w.Raw.GetProofsUsed([]string{si.Y})
		pend, _ := w.Raw.GetPendingProofs([]string{si.Y})
		if len(used) == 0 && len(pend) == 0 {
			if p, ok := w.ProofOf(id); ok {
				return map[string]any{"amount": p.Amount, "id": p.Id, "secret": p.Secret, "C": p.C}
			}
		}
	}
	return nil
}

func (w *World) freshOutputJSON(amt uint64) map[string]any {
	// a genuine blinded message that is not entered into the registry: the numbering of outputs must
	// not depend on how many malformed requests were sent
	ks := w.ActiveKeyset()
	secret := hex.EncodeToString(w.rng.bytes(32))
	rb := w.rng.bytes(32)
	rb[0] &= 0x7f
	B_, _, err := crypto.BlindMessage(secret, secp256k1.PrivKeyFromBytes(rb))
	if err != nil {
		panic(err)
	}
	return map[string]any{"amount": amt, "id": ks.Real, "B_": hex.EncodeToString(B_.SerializeCompressed())}
}

func (w *World) paidQuote() string {
	for _, q := range w.Reg.MintQ {
		if row, err := w.Raw.GetMintQuote(q.Real); err == nil && (row.State.String() == "PAID" || (row.State.String() == "UNPAID" && w.Net.InvoiceOf(q.Hash) != nil && w.Net.InvoiceOf(q.Hash).Settled)) {
			return q.Real
		}
	}
	for _, q := range w.Reg.MintQ {
		return q.Real
	}
	return "no-such-quote"
}

func (w *World) unpaidMeltQuote() string {
	for _, q := range w.Reg.MeltQ {
		if row, err := w.Raw.GetMeltQuote(q.Real); err == nil && row.State.String() == "UNPAID" {
			return q.Real
		}
	}
	return "no-such-quote"
}

func clone(m map[string]any) map[string]any {
	b, _ := json.Marshal(m)
	var out map[string]any
	json.Unmarshal(b, &out)
	return out
}

func js(v any) string {
	b, _ := json.Marshal(v)
	return string(b)
}

// malformedCases builds the mutation grammar for the current state.
func (w *World) malformedCases() []malformedCase {
	var out []malformedCase
	in := w.liveInput()
	add := func(target, cls, path string, body string) {
		out = append(out, malformedCase{Target: target, Cls: cls, Body: body, Path: path, Method: "POST"})
	}
	tops := map[string]string{"notjson": "this is not json", "emptybody": "", "array": "[1,2]", "string": `"x"`, "number": "5", "truncated": `{"inputs":[{"amount":1,`}
	paths := map[string]string{"swap": "/v1/swap", "mint": "/v1/mint/bolt11", "melt": "/v1/melt/bolt11", "mintquote": "/v1/mint/quote/bolt11",
		"meltquote": "/v1/melt/quote/bolt11", "checkstate": "/v1/checkstate", "restore": "/v1/restore"}
	for t, p := range paths {
		for c, b := range tops {
			add(t, "top:"+c, p, b)
		}
	}
	retypes := []any{"x", 5, map[string]any{"a": 1}, true}
	if in != nil {
		amt, _ := in["amount"].(uint64)
		base := func() map[string]any {
			return map[string]any{"inputs": []any{clone(in)}, "outputs": []any{w.freshOutputJSON(amt)}}
		}
		for i, v := range retypes {
			b := base()
			b["inputs"] = v
			add("swap", fmt.Sprintf("inputs:retyped%d", i), paths["swap"], js(b))
			b = base()
			b["outputs"] = v
			add("swap", fmt.Sprintf("outputs:retyped%d", i), paths["swap"], js(b))
		}
		b := base()
		delete(b, "inputs")
		add("swap", "inputs:dropped", paths["swap"], js(b))
		b = base()
		b["inputs"] = nil
		add("swap", "inputs:null", paths["swap"], js(b))
		b = base()
		b["inputs"] = []any{}
		add("swap", "inputs:emptied", paths["swap"], js(b))
		// fields of the input
		inMut := map[string]any{"amount:string": "1", "amount:negative": -1, "amount:float": 1.5, "amount:huge": json.RawMessage("1e30"),
			"amount:zero": 0, "amount:notkey": 3, "id:number": 5, "id:unknown": "00ffffffffffffff", "id:nothex": "zz-nothex", "id:empty": "",
			"C:number": 5, "C:nothex": "zz", "C:empty": "", "C:offcurve": "02" + strings.Repeat("00", 31) + "05", "C:short": "02abcd",
			"secret:number": 5, "secret:oversized": strings.Repeat("s", 600), "secret:edited": in["secret"].(string) + "x"}
		for k, v := range inMut {
			b := base()
			i0 := b["inputs"].([]any)[0].(map[string]any)
			i0[strings.Split(k, ":")[0]] = v
			add("swap", "input."+k, paths["swap"], js(b))
		}
		for _, f := range []string{"amount", "id", "secret", "C"} {
			b := base()
			delete(b["inputs"].([]any)[0].(map[string]any), f)
			add("swap", "input."+f+":dropped", paths["swap"], js(b))
		}
		outMut := map[string]any{"amount:string": "1", "amount:negative": -1, "amount:zero": 0, "amount:notkey": amt*2 + 1, "amount:huge": json.RawMessage("1e30"),
			"amount:overflow": json.RawMessage("18446744073709551616"), "id:unknown": "00ffffffffffffff", "id:nothex": "zz", "id:number": 5,
			"B_:number": 5, "B_:nothex": "zz", "B_:empty": "", "B_:offcurve": "02" + strings.Repeat("00", 31) + "05"}
		for k, v := range outMut {
			b := base()
			o0 := b["outputs"].([]any)[0].(map[string]any)
			o0[strings.Split(k, ":")[0]] = v
			add("swap", "output."+k, paths["swap"], js(b))
		}
		for _, f := range []string{"id", "B_"} {
			b := base()
			delete(b["outputs"].([]any)[0].(map[string]any), f)
			add("swap", "output."+f+":dropped", paths["swap"], js(b))
		}
		// melt with the same live input
		mq := w.unpaidMeltQuote()
		mb := func() map[string]any { return map[string]any{"quote": mq, "inputs": []any{clone(in)}} }
		for i, v := range retypes {
			b := mb()
			b["inputs"] = v
			add("melt", fmt.Sprintf("inputs:retyped%d", i), paths["melt"], js(b))
		}
		b = mb()
		b["quote"] = 5
		add("melt", "quote:number", paths["melt"], js(b))
		b = mb()
		b["quote"] = "no-such-quote"
		add("melt", "quote:unknown", paths["melt"], js(b))
		b = mb()
		delete(b, "quote")
		add("melt", "quote:dropped", paths["melt"], js(b))
		b = mb()
		b["inputs"] = []any{}
		add("melt", "inputs:emptied", paths["melt"], js(b))
		b = mb()
		b["inputs"].([]any)[0].(map[string]any)["C"] = "zz"
		add("melt", "input.C:nothex", paths["melt"], js(b))
		b = mb()
		b["inputs"].([]any)[0].(map[string]any)["id"] = "00ffffffffffffff"
		add("melt", "input.id:unknown", paths["melt"], js(b))
	}
	// mint on a (preferably paid) quote
	pq := w.paidQuote()
	mintBase := func() map[string]any { return map[string]any{"quote": pq, "outputs": []any{w.freshOutputJSON(1)}} }
	for i, v := range retypes {
		b := mintBase()
		b["outputs"] = v
		add("mint", fmt.Sprintf("outputs:retyped%d", i), paths["mint"], js(b))
	}
	for k, v := range map[string]any{"quote:number": 5, "quote:unknown": "no-such-quote", "quote:empty": ""} {
		b := mintBase()
		b["quote"] = v
		add("mint", k, paths["mint"], js(b))
	}
	b := mintBase()
	delete(b, "quote")
	add("mint", "quote:dropped", paths["mint"], js(b))
	for k, v := range map[string]any{"amount:zero": 0, "amount:notkey": 3, "amount:overflow": json.RawMessage("18446744073709551616"), "id:unknown": "00ffffffffffffff",
		"B_:nothex": "zz", "B_:empty": "", "B_:offcurve": "02" + strings.Repeat("00", 31) + "05"} {
		b := mintBase()
		b["outputs"].([]any)[0].(map[string]any)[strings.Split(k, ":")[0]] = v
		add("mint", "output."+k, paths["mint"], js(b))
	}
	// quote requests
	for k, v := range map[string]any{"amount:string": "5", "amount:negative": -5, "amount:float": 1.5, "unit:number": 5, "unit:usd": "usd", "unit:empty": "",
		"pubkey:nothex": "zz", "pubkey:notapoint": "02" + strings.Repeat("00", 31) + "05", "pubkey:number": 7} {
		b := map[string]any{"amount": 5, "unit": "sat"}
		b[strings.Split(k, ":")[0]] = v
		add("mintquote", k, paths["mintquote"], js(b))
	}
	add("mintquote", "unit:dropped", paths["mintquote"], js(map[string]any{"amount": 5}))
	for k, v := range map[string]any{"request:number": 5, "request:garbage": "lnbc1notaninvoice", "request:empty": "", "unit:usd": "usd", "unit:number": 1} {
		b := map[string]any{"request": "lnbc1", "unit": "sat"}
		b[strings.Split(k, ":")[0]] = v
		add("meltquote", k, paths["meltquote"], js(b))
	}
	add("meltquote", "request:dropped", paths["meltquote"], js(map[string]any{"unit": "sat"}))
	// queries
	for i, v := range retypes {
		add("checkstate", fmt.Sprintf("Ys:retyped%d", i), paths["checkstate"], js(map[string]any{"Ys": v}))
		add("restore", fmt.Sprintf("outputs:retyped%d", i), paths["restore"], js(map[string]any{"outputs": v}))
	}
	add("checkstate", "Ys:elements-numbers", paths["checkstate"], js(map[string]any{"Ys": []any{1, 2}}))
	add("restore", "outputs:elements-strings", paths["restore"], js(map[string]any{"outputs": []any{"a", "b"}}))
	return out
}

// HTTPDo sends one request to the mint's handler in process; a panic is recovered and reported.
func (w *World) HTTPDo(method, path, body string) (status int, resp string, panicked bool, msg string) {
	if w.Server == nil {
		return 0, "", false, "no server"
	}
	rec := httptest.NewRecorder()
	req := httptest.NewRequest(method, "http://mint"+path, bytes.NewReader([]byte(body)))
	req.Header.Set("Content-Type", "application/json")
	func() {
		defer func() {
			if r := recover(); r != nil {
				panicked, msg = true, fmt.Sprint(r)
			}
		}()
		w.Server.VerifHandler().ServeHTTP(rec, req)
	}()
	return rec.Code, rec.Body.String(), panicked, msg
}

// opMalformed sends a seeded sample of the mutation grammar; one event per request.
func (w *World) opMalformed(op Op) *Event {
	cases := w.malformedCases()
	n := int(op.Amt)
	if n <= 0 || n > len(cases) {
		n = len(cases)
	}
	// seeded choice without replacement
	idx := make([]int, len(cases))
	for i := range idx {
		idx[i] = i
	}
	for i := len(idx) - 1; i > 0; i-- {
		j := int(w.rng.next() % uint64(i+1))
		idx[i], idx[j] = idx[j], idx[i]
	}
	var last *Event
	for _, k := range idx[:n] {
		c := cases[k]
		status, resp, pan, msg := w.HTTPDo(c.Method, c.Path, c.Body)
		var er struct {
			Detail *string `json:"detail"`
			Code   *int    `json:"code"`
		}
		shape := json.Unmarshal([]byte(resp), &er) == nil && er.Detail != nil && er.Code != nil
		code := 0
		if er.Code != nil {
			code = *er.Code
		}
		r := map[string]any{"ok": status == http.StatusOK && !pan, "panic": pan, "status": status, "code": code, "errshape": shape, "detail": msg}
		if !pan && er.Detail != nil {
			r["detail"] = *er.Detail
		}
		last = w.emit("malformed", map[string]any{"target": c.Target, "cls": c.Cls}, r)
	}
	return last
}
