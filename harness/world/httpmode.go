package world

import (
	"context"
	"encoding/json"
	"fmt"
	"regexp"
	"sort"
	"strconv"
	"strings"

	"github.com/elnosh/gonuts/cashu"
	"github.com/elnosh/gonuts/cashu/nuts/nut04"
	"github.com/elnosh/gonuts/cashu/nuts/nut05"
	"github.com/elnosh/gonuts/cashu/nuts/nut07"
	"github.com/elnosh/gonuts/mint/storage"
)

// The operations of the mint as the drivers use them: either the Go API of the loaded mint or the
// HTTP handler driven with hand-built JSON (C20: not the repository's request types).
type mintAPI interface {
	RequestMintQuote(nut04.PostMintQuoteBolt11Request) (storage.MintQuote, error)
	GetMintQuoteState(string) (storage.MintQuote, error)
	MintTokens(nut04.PostMintBolt11Request) (cashu.BlindedSignatures, error)
	Swap(cashu.Proofs, cashu.BlindedMessages) (cashu.BlindedSignatures, error)
	RequestMeltQuote(nut05.PostMeltQuoteBolt11Request) (storage.MeltQuote, error)
	GetMeltQuoteState(context.Context, string) (storage.MeltQuote, error)
	MeltTokens(context.Context, nut05.PostMeltBolt11Request) (storage.MeltQuote, error)
	ProofsStateCheck([]string) ([]nut07.ProofState, error)
	RestoreSignatures(cashu.BlindedMessages) (cashu.BlindedMessages, cashu.BlindedSignatures, error)
}

// API returns the entry points in use.
func (w *World) API() mintAPI {
	if w.ViaHTTP {
		return &httpAPI{w}
	}
	return w.Mint
}

// HTTPFacts: what the transport saw for the last operation.
type HTTPFacts struct {
	Used    bool
	Status  int
	Code    int
	Detail  string
	Shape   string // "ok" or "bad:<what>"
	ErrBody bool   // 400 body is {detail, code}
	Req     string
	Resp    string
	Method  string
	Path    string
	DBCalls int
	// CacheHit: the same bytes were already answered 200 on this path (swap / mint)
	CacheHit bool
	// Leak: the response carries the text of an error the harness injected into a storage or Lightning call
	Leak bool
}

// InjectedMarker is part of the text of every error the harness injects (sched.ErrInjected).
const InjectedMarker = "verif: injected"

type httpAPI struct{ w *World }

var hex66 = regexp.MustCompile(`^0[23][0-9a-f]{64}$`)
var hex64re = regexp.MustCompile(`^[0-9a-f]{64}$`)
var ksidre = regexp.MustCompile(`^[0-9a-f]{16}$`)

func isNum(v any) bool {
	_, ok := v.(json.Number)
	return ok
}

func num(v any) uint64 {
	if n, ok := v.(json.Number); ok {
		u, _ := strconv.ParseUint(n.String(), 10, 64)
		return u
	}
	return 0
}

func str(v any) string {
	s, _ := v.(string)
	return s
}

func (h *httpAPI) do(method, path string, body any, shape func(map[string]any) string) (map[string]any, error) {
	w := h.w
	reqb := ""
	if body != nil {
		b, _ := json.Marshal(body)
		reqb = string(b)
	}
	w.DB.TakeLog()
	// NUT-19: a byte-identical repetition of an earlier successful swap / mint request
	hit := w.okReqs[method+path+reqb]
	status, resp, pan, msg := w.HTTPDo(method, path, reqb)
	calls := len(w.DB.TakeLog())
	f := &HTTPFacts{Used: true, Status: status, Req: reqb, Resp: resp, Method: method, Path: path, DBCalls: calls, Shape: "ok", CacheHit: hit, Leak: strings.Contains(resp, InjectedMarker)}
	if status == 200 && !pan && (path == "/v1/swap" || path == "/v1/mint/bolt11") {
		if w.okReqs == nil {
			w.okReqs = map[string]bool{}
		}
		w.okReqs[method+path+reqb] = true
	}
	w.lastHTTP = f
	if pan {
		panic(msg)
	}
	dec := json.NewDecoder(strings.NewReader(resp))
	dec.UseNumber()
	var m map[string]any
	if err := dec.Decode(&m); err != nil {
		f.Shape = "bad:response-not-a-json-object"
		return nil, fmt.Errorf("unparseable response (status %d)", status)
	}
	if status != 200 {
		d, okd := m["detail"].(string)
		c, okc := m["code"].(json.Number)
		f.ErrBody = okd && okc && len(m) == 2
		if okc {
			ci, _ := strconv.Atoi(c.String())
			f.Code = ci
		}
		f.Detail = d
		return nil, cashu.Error{Detail: d, Code: cashu.CashuErrCode(f.Code)}
	}
	if shape != nil {
		f.Shape = shape(m)
	}
	return m, nil
}

// ---- shapes (NUT-04/05/03/07/09) ----

func sigShape(m map[string]any, field string) string {
	l, ok := m[field].([]any)
	if !ok {
		return "bad:" + field + "-not-a-list"
	}
	for _, x := range l {
		s, ok := x.(map[string]any)
		if !ok {
			return "bad:signature-not-an-object"
		}
		if !isNum(s["amount"]) {
			return "bad:signature.amount-not-a-number"
		}
		if !ksidre.MatchString(str(s["id"])) {
			return "bad:signature.id"
		}
		if !hex66.MatchString(str(s["C_"])) {
			return "bad:signature.C_-not-66-hex"
		}
		d, ok := s["dleq"].(map[string]any)
		if !ok {
			return "bad:signature.dleq-missing"
		}
		if !hex64re.MatchString(str(d["e"])) || !hex64re.MatchString(str(d["s"])) {
			return "bad:signature.dleq-e-s-not-64-hex"
		}
	}
	return "ok"
}

func mintQuoteShape(m map[string]any) string {
	if str(m["quote"]) == "" || str(m["request"]) == "" {
		return "bad:quote-or-request-missing"
	}
	switch str(m["state"]) {
	case "UNPAID", "PAID", "PENDING", "ISSUED":
	default:
		return "bad:state-not-a-NUT-04-string"
	}
	if !isNum(m["expiry"]) {
		return "bad:expiry-not-a-number"
	}
	if m["amount"] != nil && !isNum(m["amount"]) {
		return "bad:amount-not-a-number"
	}
	return "ok"
}

func meltQuoteShape(m map[string]any) string {
	if str(m["quote"]) == "" {
		return "bad:quote-missing"
	}
	switch str(m["state"]) {
	case "UNPAID", "PAID", "PENDING":
	default:
		return "bad:state-not-a-NUT-05-string"
	}
	if !isNum(m["amount"]) || !isNum(m["fee_reserve"]) || !isNum(m["expiry"]) {
		return "bad:amount-fee_reserve-expiry-not-numbers"
	}
	if str(m["state"]) == "PAID" && m["payment_preimage"] != nil {
		if _, ok := m["payment_preimage"].(string); !ok {
			return "bad:payment_preimage-not-a-string"
		}
	}
	return "ok"
}

func toSigs(m map[string]any, field string) cashu.BlindedSignatures {
	var out cashu.BlindedSignatures
	l, _ := m[field].([]any)
	for _, x := range l {
		s, _ := x.(map[string]any)
		bs := cashu.BlindedSignature{Amount: num(s["amount"]), C_: str(s["C_"]), Id: str(s["id"])}
		if d, ok := s["dleq"].(map[string]any); ok {
			bs.DLEQ = &cashu.DLEQProof{E: str(d["e"]), S: str(d["s"])}
		}
		out = append(out, bs)
	}
	return out
}

func proofJSON(p cashu.Proof) map[string]any {
	m := map[string]any{"amount": p.Amount, "id": p.Id, "secret": p.Secret, "C": p.C}
	if p.Witness != "" {
		m["witness"] = p.Witness
	}
	if p.DLEQ != nil {
		m["dleq"] = map[string]any{"e": p.DLEQ.E, "s": p.DLEQ.S, "r": p.DLEQ.R}
	}
	return m
}

func msgJSON(b cashu.BlindedMessage) map[string]any {
	m := map[string]any{"amount": b.Amount, "id": b.Id, "B_": b.B_}
	if b.Witness != "" {
		m["witness"] = b.Witness
	}
	return m
}

func listOf[T any](xs []T, f func(T) map[string]any) []any {
	out := make([]any, len(xs))
	for i, x := range xs {
		out[i] = f(x)
	}
	return out
}

func (h *httpAPI) RequestMintQuote(r nut04.PostMintQuoteBolt11Request) (storage.MintQuote, error) {
	body := map[string]any{"amount": r.Amount, "unit": r.Unit}
	if r.Pubkey != "" {
		body["pubkey"] = r.Pubkey
	}
	m, err := h.do("POST", "/v1/mint/quote/bolt11", body, mintQuoteShape)
	if err != nil {
		return storage.MintQuote{}, err
	}
	hash, _ := PaymentHashOf(str(m["request"]))
	return storage.MintQuote{Id: str(m["quote"]), PaymentRequest: str(m["request"]), PaymentHash: hash, Amount: num(m["amount"]),
		State: nut04.StringToState(str(m["state"])), Expiry: num(m["expiry"])}, nil
}

func (h *httpAPI) GetMintQuoteState(id string) (storage.MintQuote, error) {
	m, err := h.do("GET", "/v1/mint/quote/bolt11/"+id, nil, mintQuoteShape)
	if err != nil {
		return storage.MintQuote{}, err
	}
	return storage.MintQuote{Id: str(m["quote"]), PaymentRequest: str(m["request"]), Amount: num(m["amount"]),
		State: nut04.StringToState(str(m["state"]))}, nil
}

func (h *httpAPI) MintTokens(r nut04.PostMintBolt11Request) (cashu.BlindedSignatures, error) {
	body := map[string]any{"quote": r.Quote, "outputs": listOf(r.Outputs, msgJSON)}
	if r.Signature != "" {
		body["signature"] = r.Signature
	}
	m, err := h.do("POST", "/v1/mint/bolt11", body, func(m map[string]any) string { return sigShape(m, "signatures") })
	if err != nil {
		return nil, err
	}
	return toSigs(m, "signatures"), nil
}

func (h *httpAPI) Swap(p cashu.Proofs, b cashu.BlindedMessages) (cashu.BlindedSignatures, error) {
	body := map[string]any{"inputs": listOf(p, proofJSON), "outputs": listOf(b, msgJSON)}
	m, err := h.do("POST", "/v1/swap", body, func(m map[string]any) string { return sigShape(m, "signatures") })
	if err != nil {
		return nil, err
	}
	return toSigs(m, "signatures"), nil
}

func (h *httpAPI) RequestMeltQuote(r nut05.PostMeltQuoteBolt11Request) (storage.MeltQuote, error) {
	body := map[string]any{"request": r.Request, "unit": r.Unit}
	if len(r.Options) > 0 {
		body["options"] = map[string]any{"mpp": map[string]any{"amount": r.Options["mpp"].AmountMsat}}
	}
	m, err := h.do("POST", "/v1/melt/quote/bolt11", body, meltQuoteShape)
	if err != nil {
		return storage.MeltQuote{}, err
	}
	return storage.MeltQuote{Id: str(m["quote"]), Amount: num(m["amount"]), FeeReserve: num(m["fee_reserve"]), State: nut05.StringToState(str(m["state"]))}, nil
}

func (h *httpAPI) meltQuoteOf(m map[string]any) storage.MeltQuote {
	return storage.MeltQuote{Id: str(m["quote"]), Amount: num(m["amount"]), FeeReserve: num(m["fee_reserve"]),
		State: nut05.StringToState(str(m["state"])), Preimage: str(m["payment_preimage"])}
}

func (h *httpAPI) GetMeltQuoteState(ctx context.Context, id string) (storage.MeltQuote, error) {
	m, err := h.do("GET", "/v1/melt/quote/bolt11/"+id, nil, meltQuoteShape)
	if err != nil {
		return storage.MeltQuote{}, err
	}
	return h.meltQuoteOf(m), nil
}

func (h *httpAPI) MeltTokens(ctx context.Context, r nut05.PostMeltBolt11Request) (storage.MeltQuote, error) {
	body := map[string]any{"quote": r.Quote, "inputs": listOf(r.Inputs, proofJSON)}
	m, err := h.do("POST", "/v1/melt/bolt11", body, meltQuoteShape)
	if err != nil {
		return storage.MeltQuote{}, err
	}
	return h.meltQuoteOf(m), nil
}

func (h *httpAPI) ProofsStateCheck(ys []string) ([]nut07.ProofState, error) {
	l := make([]any, len(ys))
	for i, y := range ys {
		l[i] = y
	}
	shape := func(m map[string]any) string {
		st, ok := m["states"].([]any)
		if !ok {
			return "bad:states-not-a-list"
		}
		for _, x := range st {
			s, ok := x.(map[string]any)
			if !ok {
				return "bad:state-not-an-object"
			}
			switch str(s["state"]) {
			case "UNSPENT", "PENDING", "SPENT":
			default:
				return "bad:state-not-a-NUT-07-string"
			}
			if _, ok := s["Y"].(string); !ok {
				return "bad:Y-missing"
			}
		}
		return "ok"
	}
	m, err := h.do("POST", "/v1/checkstate", map[string]any{"Ys": l}, shape)
	if err != nil {
		return nil, err
	}
	var out []nut07.ProofState
	for _, x := range m["states"].([]any) {
		s := x.(map[string]any)
		out = append(out, nut07.ProofState{Y: str(s["Y"]), State: nut07.StringToState(str(s["state"])), Witness: str(s["witness"])})
	}
	return out, nil
}

func (h *httpAPI) RestoreSignatures(b cashu.BlindedMessages) (cashu.BlindedMessages, cashu.BlindedSignatures, error) {
	shape := func(m map[string]any) string {
		if _, ok := m["outputs"].([]any); !ok {
			return "bad:outputs-not-a-list"
		}
		return sigShape(m, "signatures")
	}
	m, err := h.do("POST", "/v1/restore", map[string]any{"outputs": listOf(b, msgJSON)}, shape)
	if err != nil {
		return nil, nil, err
	}
	var outs cashu.BlindedMessages
	for _, x := range m["outputs"].([]any) {
		o, _ := x.(map[string]any)
		outs = append(outs, cashu.BlindedMessage{Amount: num(o["amount"]), B_: str(o["B_"]), Id: str(o["id"])})
	}
	return outs, toSigs(m, "signatures"), nil
}

// KeysShape fetches /v1/keys, /v1/keysets, /v1/keys/{id} and /v1/info and checks their shape
// (hex points, key maps sorted by amount, required fields).
func (w *World) KeysShape() string {
	status, resp, pan, _ := w.HTTPDo("GET", "/v1/keysets", "")
	if pan || status != 200 {
		return "bad:keysets-status"
	}
	var ks struct {
		Keysets []map[string]any `json:"keysets"`
	}
	dec := json.NewDecoder(strings.NewReader(resp))
	dec.UseNumber()
	if dec.Decode(&ks) != nil || len(ks.Keysets) == 0 {
		return "bad:keysets-body"
	}
	for _, k := range ks.Keysets {
		if !ksidre.MatchString(str(k["id"])) || str(k["unit"]) != "sat" || !isNum(k["input_fee_ppk"]) {
			return "bad:keysets-entry"
		}
		if _, ok := k["active"].(bool); !ok {
			return "bad:keysets-active-not-bool"
		}
		st, body, pan, _ := w.HTTPDo("GET", "/v1/keys/"+str(k["id"]), "")
		if pan || st != 200 {
			return "bad:keys-by-id-status"
		}
		if s := keysBodyShape(body); s != "ok" {
			return s
		}
	}
	st, body, pan, _ := w.HTTPDo("GET", "/v1/keys", "")
	if pan || st != 200 {
		return "bad:keys-status"
	}
	if s := keysBodyShape(body); s != "ok" {
		return s
	}
	st, body, pan, _ = w.HTTPDo("GET", "/v1/info", "")
	var info map[string]any
	if pan || st != 200 || json.Unmarshal([]byte(body), &info) != nil {
		return "bad:info"
	}
	if _, ok := info["nuts"].(map[string]any); !ok {
		return "bad:info-nuts"
	}
	if !hex66.MatchString(str(info["pubkey"])) {
		return "bad:info-pubkey"
	}
	st, body, _, _ = w.HTTPDo("GET", "/v1/keys/00ffffffffffffff", "")
	var er map[string]any
	if st != 400 || json.Unmarshal([]byte(body), &er) != nil || er["code"] == nil || er["detail"] == nil {
		return "bad:unknown-keyset-not-400"
	}
	return "ok"
}

var keyEntry = regexp.MustCompile(`"(\d+)":"(0[23][0-9a-f]{64})"`)

func keysBodyShape(body string) string {
	var m struct {
		Keysets []struct {
			Id   string          `json:"id"`
			Unit string          `json:"unit"`
			Keys json.RawMessage `json:"keys"`
		} `json:"keysets"`
	}
	if json.Unmarshal([]byte(body), &m) != nil || len(m.Keysets) != 1 {
		return "bad:keys-body"
	}
	k := m.Keysets[0]
	if !ksidre.MatchString(k.Id) || k.Unit != "sat" {
		return "bad:keys-id-unit"
	}
	entries := keyEntry.FindAllStringSubmatch(string(k.Keys), -1)
	if len(entries) != 60 {
		return "bad:keys-not-60-hex-points"
	}
	amts := make([]uint64, len(entries))
	for i, e := range entries {
		amts[i], _ = strconv.ParseUint(e[1], 10, 64)
	}
	if !sort.SliceIsSorted(amts, func(i, j int) bool { return amts[i] < amts[j] }) {
		return "bad:keys-not-sorted-by-amount"
	}
	return "ok"
}
