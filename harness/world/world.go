// Package world runs a real gonuts mint against the Lightning model, keeps a registry that
// maps every implementation value (secret, blinded message, signature, quote, keyset) to an
// abstract id with its provenance, executes abstract operations on the real code and records,
// after every step, the actual reply and a side-effect-free projection of the real state.
package world

import (
	"context"
	"crypto/sha256"
	"encoding/hex"
	"encoding/json"
	"fmt"
	"os"
	"path/filepath"
	"sort"
	"strings"
	"sync"
	"time"

	"github.com/btcsuite/btcd/btcec/v2"
	"github.com/decred/dcrd/dcrec/secp256k1/v4"
	"github.com/elnosh/gonuts/cashu"
	"github.com/elnosh/gonuts/crypto"
	"github.com/elnosh/gonuts/mint"
	"github.com/elnosh/gonuts/mint/storage"

	"verif/harness/dbwrap"
	"verif/harness/lnmodel"
	"verif/harness/sched"
)

// ---------- registry ----------

type SecretInfo struct {
	ID     string
	Secret string
	Lock   string // "none" or lock key id
	Y      string
}

type OutputInfo struct {
	ID     string // "b<n>"
	Sec    string // secret id
	R      *secp256k1.PrivateKey
	B_     string
	KsReal string
	Amt    uint64
	Signed bool
	Sig    cashu.BlindedSignature
	Tag    string
}

type KeysetInfo struct {
	ID     string // "k<idx>"
	Real   string
	Idx    uint32
	Fee    uint
	Active bool
	Keys   crypto.PublicKeys
}

type MintQuoteInfo struct {
	ID      string
	Real    string
	Hash    string
	Request string
	Amt     uint64
	LockKey string
}

type MeltQuoteInfo struct {
	ID      string
	Real    string
	Hash    string
	Request string
	Amt     uint64
	Reserve uint64
	Kind    string // ext | int | mpp
	Target  string // mint quote id for int
	Msat    uint64
}

type Registry struct {
	mu       sync.Mutex
	Secrets  map[string]*SecretInfo // by id
	secByStr map[string]string
	Outputs  map[string]*OutputInfo // by id
	outByB   map[string]string
	nOut     int
	nSec     int
	Keysets  map[string]*KeysetInfo // by abstract id
	ksByReal map[string]string
	MintQ    map[string]*MintQuoteInfo
	mqByReal map[string]string
	MeltQ    map[string]*MeltQuoteInfo
	lqByReal map[string]string
	Keys     map[string]*btcec.PrivateKey // lock keys K1..
	wits     map[string]string            // witness string -> id
	OutOrder []string
	nMq, nLq int // quote ids are allocated per request, accepted or not
}

// NextQuoteID allocates the abstract id of the next mint ("mq") or melt ("lq") quote request.  Ids are
// given per request, not per accepted request, so that a history can name the quote a refused request would
// have created (and follow it up if the implementation accepted it after all).
func (r *Registry) NextQuoteID(kind string) string {
	r.mu.Lock()
	defer r.mu.Unlock()
	if kind == "mq" {
		r.nMq++
		return fmt.Sprintf("mq%d", r.nMq)
	}
	r.nLq++
	return fmt.Sprintf("lq%d", r.nLq)
}

func NewRegistry() *Registry {
	return &Registry{
		Secrets: map[string]*SecretInfo{}, secByStr: map[string]string{},
		Outputs: map[string]*OutputInfo{}, outByB: map[string]string{},
		Keysets: map[string]*KeysetInfo{}, ksByReal: map[string]string{},
		MintQ: map[string]*MintQuoteInfo{}, mqByReal: map[string]string{},
		MeltQ: map[string]*MeltQuoteInfo{}, lqByReal: map[string]string{},
		Keys: map[string]*btcec.PrivateKey{}, wits: map[string]string{"": "none"},
	}
}

func (r *Registry) WitID(w string) string {
	r.mu.Lock()
	defer r.mu.Unlock()
	if id, ok := r.wits[w]; ok {
		return id
	}
	id := fmt.Sprintf("w%d", len(r.wits))
	r.wits[w] = id
	return id
}

func (r *Registry) LockKey(id string) *btcec.PrivateKey {
	r.mu.Lock()
	defer r.mu.Unlock()
	if k, ok := r.Keys[id]; ok {
		return k
	}
	h := sha256.Sum256([]byte("verif-lock-key-" + id))
	k, _ := btcec.PrivKeyFromBytes(h[:])
	r.Keys[id] = k
	return k
}

// InternSecret returns the id for a secret string, creating one if new.
func (r *Registry) InternSecret(s string, lock string) *SecretInfo {
	r.mu.Lock()
	defer r.mu.Unlock()
	if id, ok := r.secByStr[s]; ok {
		return r.Secrets[id]
	}
	r.nSec++
	id := fmt.Sprintf("s%d", r.nSec)
	y := ""
	if Y, err := crypto.HashToCurve([]byte(s)); err == nil {
		y = hex.EncodeToString(Y.SerializeCompressed())
	}
	si := &SecretInfo{ID: id, Secret: s, Lock: lock, Y: y}
	r.Secrets[id] = si
	r.secByStr[s] = id
	return si
}

func (r *Registry) SecretByY(y string) *SecretInfo {
	r.mu.Lock()
	defer r.mu.Unlock()
	for _, s := range r.Secrets {
		if s.Y == y {
			return s
		}
	}
	return nil
}

// ---------- world ----------

type Options struct {
	Dir         string
	FeePpk      uint
	Limits      mint.MintLimits
	MPP         bool
	FeeReserve  string
	NodeName    string
	Net         *lnmodel.Network
	Seed        int64
	GateBg      bool
	NoLoadWrap  bool
	AutoNotify  bool
	WithServer  bool
	TemplateDir string
}

type World struct {
	Opt    Options
	Dir    string
	Net    *lnmodel.Network
	Node   *lnmodel.Node
	Mint   *mint.Mint
	Server *mint.MintServer
	DB     *dbwrap.MintDB
	Raw    storage.MintDB
	Reg    *Registry
	Ctl    *sched.Controller
	rng    *rng
	Events []Event
	Tr     int
	nOp    int
	// OpTimeout bounds every call into the mint.
	OpTimeout time.Duration
	// Conc: operations run concurrently under the scheduler; events carry call/return
	// sequence numbers instead of a projection.
	Conc      bool
	evMu      sync.Mutex
	clock     int64
	spans     map[int64][2]int64
	NoPost    bool
	Big       sync.Mutex
	procNames map[int64]string
	// last operation announced (facts known before the call into the mint), for crash events
	// Inline: run the call into the mint on the calling goroutine (crash / error injection by proc)
	Inline bool
	// Fault: a storage/Lightning error is being injected into the operation now running
	Fault bool
	// ViaHTTP: operations go through the HTTP handler with hand-built JSON
	ViaHTTP       bool
	lastHTTP      *HTTPFacts
	lastOKReq     *HTTPFacts
	cachedReqs    []*HTTPFacts // every swap / mint request answered 200 since the mint process started (NUT-19 cache contents)
	lastFailedReq *HTTPFacts
	okReqs        map[string]bool
	LastEv        string
	LastA         map[string]any
	LastSince     int
}

// announce records the facts of an operation before the mint is called, so that a crash
// in the middle of the call can still be described.
func (w *World) announce(ev string, a map[string]any) {
	w.evMu.Lock()
	w.LastEv, w.LastA, w.LastSince = ev, a, w.Net.Seq()
	w.evMu.Unlock()
}

// Reborn models a process restart after a crash: a new mint object loaded from the same
// directory, sharing the Lightning network (which lives outside the process), the registry
// and the trace.
func (w *World) Reborn(rotate bool, fee uint) (*World, error, bool, string) {
	n := &World{Opt: w.Opt, Dir: w.Dir, Net: w.Net, Reg: w.Reg, Ctl: sched.New(), rng: w.rng, OpTimeout: w.OpTimeout,
		Events: w.Events, Tr: w.Tr, nOp: w.nOp, clock: w.clock}
	old := w.Node
	n.Node = &lnmodel.Node{Net: w.Net, Name: old.Name, Scripts: old.Scripts, FeeReservePolicy: old.FeeReservePolicy, Sched: n.Ctl}
	err, pan, msg := n.guard(func() error { return n.load(rotate, fee) })
	return n, err, pan, msg
}

// EmitCrash records what was in flight when the process died (after the restart, so that the
// projection is the restarted mint's).
func (w *World) EmitCrash(victim *World, k int, before string, restartOK bool, detail string) {
	a := map[string]any{"op": victim.LastEv, "a": victim.LastA, "k": k, "before": before,
		"ln": w.lnFacts(victim.LastSince)}
	w.emit("crash", a, map[string]any{"ok": restartOK, "panic": false, "detail": detail, "code": 0})
}

// SetProc names the calling goroutine: events it emits carry that proc name.
func (w *World) SetProc(name string) {
	w.evMu.Lock()
	defer w.evMu.Unlock()
	if w.procNames == nil {
		w.procNames = map[int64]string{}
	}
	w.procNames[sched.Gid()] = name
}

// EmitSpan records an environment event with an explicit call/return span.
func (w *World) EmitSpan(ev string, a, r map[string]any, c, t int64, proc string) {
	w.evMu.Lock()
	defer w.evMu.Unlock()
	w.nOp++
	a["fault"] = false
	w.Events = append(w.Events, Event{Tr: w.Tr, I: w.nOp, Ev: ev, A: a, R: r, Post: map[string]any{}, C: c, T: t, Proc: proc})
}

type rng struct{ s uint64 }

func (r *rng) next() uint64 {
	r.s ^= r.s << 13
	r.s ^= r.s >> 7
	r.s ^= r.s << 17
	return r.s
}

func (r *rng) bytes(n int) []byte {
	b := make([]byte, n)
	for i := range b {
		b[i] = byte(r.next() >> 24)
	}
	return b
}

// Calls made while a mint is being loaded (start-up rotation) pass through the scheduler of the
// world that loads it: the load-time wrapper is installed once and finds that world through the
// loading goroutine's id.
type loadDispatch struct {
	mu      sync.Mutex
	ctl     map[int64]*sched.Controller
	wrapped map[int64]*dbwrap.MintDB
}

var dispatch = &loadDispatch{ctl: map[int64]*sched.Controller{}, wrapped: map[int64]*dbwrap.MintDB{}}

type gidSched struct{}

func (gidSched) Point(kind, name string) error {
	dispatch.mu.Lock()
	c := dispatch.ctl[sched.Gid()]
	dispatch.mu.Unlock()
	if c != nil {
		return c.Point(kind, name)
	}
	return nil
}

func init() {
	mint.VerifLoadWrap = func(db storage.MintDB) storage.MintDB {
		wd := &dbwrap.MintDB{Inner: db, Sched: gidSched{}}
		dispatch.mu.Lock()
		dispatch.wrapped[sched.Gid()] = wd
		dispatch.mu.Unlock()
		return wd
	}
}

// New creates a fresh mint in opt.Dir.
func New(opt Options) (*World, error) {
	if opt.NodeName == "" {
		opt.NodeName = "mint"
	}
	if opt.Net == nil {
		opt.Net = lnmodel.NewNetwork()
	}
	w := &World{Opt: opt, Dir: opt.Dir, Net: opt.Net, Reg: NewRegistry(), Ctl: sched.New(),
		rng: &rng{s: uint64(opt.Seed)*2654435761 + 88172645463325252}, OpTimeout: 20 * time.Second}
	w.Ctl.GateBg = opt.GateBg
	w.Node = w.Net.NewNode(opt.NodeName)
	if opt.FeeReserve != "" {
		w.Node.FeeReservePolicy = opt.FeeReserve
	}
	w.Node.AutoNotify = opt.AutoNotify
	w.Node.Sched = w.Ctl
	if err := os.MkdirAll(opt.Dir, 0o700); err != nil {
		return nil, err
	}
	if opt.TemplateDir != "" {
		if err := copyFile(filepath.Join(opt.TemplateDir, "mint.sqlite.db"), filepath.Join(opt.Dir, "mint.sqlite.db")); err != nil {
			return nil, err
		}
	}
	if err := w.load(false, opt.FeePpk); err != nil {
		return nil, err
	}
	return w, nil
}

func copyFile(src, dst string) error {
	b, err := os.ReadFile(src)
	if err != nil {
		return err
	}
	return os.WriteFile(dst, b, 0o600)
}

func (w *World) config(rotate bool, fee uint) mint.Config {
	return mint.Config{
		RotateKeyset:    rotate,
		MintPath:        w.Dir,
		InputFeePpk:     fee,
		Limits:          w.Opt.Limits,
		LightningClient: w.Node,
		EnableMPP:       w.Opt.MPP,
		LogLevel:        mint.Disable,
	}
}

// load (re)loads the mint from w.Dir. The storage is wrapped at load time so that calls made
// during loading (start-up rotation) pass through the scheduler too.
func (w *World) load(rotate bool, fee uint) error {
	g := sched.Gid()
	dispatch.mu.Lock()
	dispatch.ctl[g] = w.Ctl
	dispatch.mu.Unlock()
	defer func() {
		if r := recover(); r != nil {
			dispatch.mu.Lock()
			if wd := dispatch.wrapped[g]; wd != nil {
				wd.Inner.Close()
			}
			delete(dispatch.wrapped, g)
			delete(dispatch.ctl, g)
			dispatch.mu.Unlock()
			panic(r)
		}
	}()
	m, err := mint.LoadMint(w.config(rotate, fee))
	dispatch.mu.Lock()
	wrapped := dispatch.wrapped[g]
	delete(dispatch.wrapped, g)
	delete(dispatch.ctl, g)
	dispatch.mu.Unlock()
	if err != nil {
		if wrapped != nil {
			wrapped.Inner.Close()
		}
		return err
	}
	wrapped.Sched = w.Ctl
	w.Mint = m
	w.DB = wrapped
	w.Raw = wrapped.Inner
	if w.Opt.WithServer {
		w.Server = mint.SetupMintServer(m, mint.ServerConfig{Port: 0})
	}
	return w.refreshKeysets()
}

func (w *World) refreshKeysets() error {
	dbks, err := w.Raw.GetKeysets()
	if err != nil {
		return err
	}
	for _, k := range dbks {
		id := fmt.Sprintf("k%d", k.DerivationPathIdx)
		ki := w.Reg.Keysets[id]
		if ki == nil {
			ki = &KeysetInfo{ID: id, Real: k.Id, Idx: k.DerivationPathIdx}
			w.Reg.Keysets[id] = ki
			w.Reg.ksByReal[k.Id] = id
		}
		ki.Fee = k.InputFeePpk
		ki.Active = k.Active
		if ki.Keys == nil {
			if ks, err := w.Mint.GetKeysetById(k.Id); err == nil {
				ki.Keys = ks.Keys
			}
		}
	}
	return nil
}

func (w *World) ActiveKeyset() (ki *KeysetInfo) {
	defer func() {
		// a mint left without an active keyset (crash in the middle of a rotation) panics here
		if r := recover(); r != nil || ki == nil {
			ki = &KeysetInfo{ID: "kunknown", Real: "00ffffffffffffff"}
		}
	}()
	real := w.Mint.GetActiveKeyset().Id
	if id, ok := w.Reg.ksByReal[real]; ok {
		return w.Reg.Keysets[id]
	}
	w.refreshKeysets()
	return w.Reg.Keysets[w.Reg.ksByReal[real]]
}

// Close shuts the mint down (closes the store).
func (w *World) Close() {
	if w.Mint != nil {
		w.Mint.Shutdown()
	}
}

// Abandon closes the store without any orderly shutdown of in-flight work (after a crash the
// frozen goroutines are simply left behind).
func (w *World) Abandon() {
	if w.Raw != nil {
		w.Raw.Close()
	}
}

// ---------- outputs / proofs ----------

// NewOutput creates a blinded message for (secret, ks, amt) with a fresh blinding factor.
// secID "" means a fresh random secret; lock "" means unlocked.
func (w *World) NewOutput(secID string, lock string, ksReal string, amt uint64) *OutputInfo {
	var si *SecretInfo
	if secID != "" {
		si = w.Reg.Secrets[secID]
	}
	if si == nil {
		var secret string
		if lock != "" && lock != "none" {
			pk := w.Reg.LockKey(lock).PubKey()
			secret = fmt.Sprintf(`["P2PK",{"nonce":"%s","data":"%s","tags":[]}]`,
				hex.EncodeToString(w.rng.bytes(16)), hex.EncodeToString(pk.SerializeCompressed()))
		} else {
			secret = hex.EncodeToString(w.rng.bytes(32))
			lock = "none"
		}
		si = w.Reg.InternSecret(secret, lock)
	}
	rb := w.rng.bytes(32)
	rb[0] &= 0x7f
	r := secp256k1.PrivKeyFromBytes(rb)
	B_, _, err := crypto.BlindMessage(si.Secret, r)
	if err != nil {
		panic(err)
	}
	w.Reg.mu.Lock()
	w.Reg.nOut++
	oi := &OutputInfo{ID: fmt.Sprintf("b%d", w.Reg.nOut), Sec: si.ID, R: r,
		B_: hex.EncodeToString(B_.SerializeCompressed()), KsReal: ksReal, Amt: amt}
	w.Reg.Outputs[oi.ID] = oi
	w.Reg.outByB[oi.B_] = oi.ID
	w.Reg.OutOrder = append(w.Reg.OutOrder, oi.ID)
	w.Reg.mu.Unlock()
	return oi
}

func SigTag(s cashu.BlindedSignature) string {
	e, ss := "", ""
	if s.DLEQ != nil {
		e, ss = s.DLEQ.E, s.DLEQ.S
	}
	h := sha256.Sum256([]byte(fmt.Sprintf("%d|%s|%s|%s|%s", s.Amount, s.Id, s.C_, e, ss)))
	return "t" + hex.EncodeToString(h[:6])
}

// ProofOf unblinds the signature handed out for output id into a proof.
func (w *World) ProofOf(outID string) (cashu.Proof, bool) {
	oi := w.Reg.Outputs[outID]
	if oi == nil || !oi.Signed {
		return cashu.Proof{}, false
	}
	ksid := w.Reg.ksByReal[oi.Sig.Id]
	ki := w.Reg.Keysets[ksid]
	if ki == nil {
		return cashu.Proof{}, false
	}
	K := ki.Keys[oi.Sig.Amount]
	if K == nil {
		return cashu.Proof{}, false
	}
	C_b, _ := hex.DecodeString(oi.Sig.C_)
	C_, err := secp256k1.ParsePubKey(C_b)
	if err != nil {
		return cashu.Proof{}, false
	}
	C := crypto.UnblindSignature(C_, oi.R, K)
	return cashu.Proof{Amount: oi.Sig.Amount, Id: oi.Sig.Id, Secret: w.Reg.Secrets[oi.Sec].Secret,
		C: hex.EncodeToString(C.SerializeCompressed())}, true
}

// ---------- events ----------

type Event struct {
	Tr   int            `json:"tr"`
	I    int            `json:"i"`
	Ev   string         `json:"ev"`
	A    map[string]any `json:"a"`
	R    map[string]any `json:"r"`
	Post map[string]any `json:"post"`
	C    int64          `json:"c"` // call sequence number (concurrent segments)
	T    int64          `json:"t"` // return sequence number
	Proc string         `json:"proc"`
}

// Tick advances the logical clock used to order calls and returns of concurrent operations.
func (w *World) Tick() int64 {
	w.evMu.Lock()
	defer w.evMu.Unlock()
	w.clock++
	return w.clock
}

func (w *World) emit(ev string, a, r map[string]any) *Event {
	if a == nil {
		a = map[string]any{"x": 0}
	}
	if r == nil {
		r = map[string]any{"ok": true}
	}
	a["fault"] = w.Fault
	h := map[string]any{"used": false, "status": 0, "code": 0, "shape": "ok", "errbody": true, "dbcalls": 0, "generic": false, "path": "", "cachehit": false, "leak": false}
	if f := w.lastHTTP; f != nil {
		h = map[string]any{"used": true, "status": f.Status, "code": f.Code, "shape": f.Shape, "errbody": f.ErrBody || f.Status == 200, "dbcalls": f.DBCalls,
			"generic": f.Detail == "mint is currently unable to process request" || f.Detail == "unable to send payment", "path": f.Path, "cachehit": f.CacheHit, "leak": f.Leak}
		if f.Path == "/v1/swap" || f.Path == "/v1/mint/bolt11" {
			if f.Status == 200 {
				w.lastOKReq = f
				if !f.CacheHit {
					w.cachedReqs = append(w.cachedReqs, f)
				}
			} else {
				w.lastFailedReq = f
			}
		}
		w.lastHTTP = nil
	}
	r["http"] = h
	var post map[string]any
	if w.Conc || w.NoPost {
		post = map[string]any{}
	} else {
		post = w.Project()
	}
	w.evMu.Lock()
	defer w.evMu.Unlock()
	w.nOp++
	e := Event{Tr: w.Tr, I: w.nOp, Ev: ev, A: a, R: r, Post: post}
	if name, ok := w.procNames[sched.Gid()]; ok {
		e.Proc = name
	}
	if sp, ok := w.spans[sched.Gid()]; ok {
		e.C, e.T = sp[0], sp[1]
		delete(w.spans, sched.Gid())
	} else {
		w.clock++
		e.C, e.T = w.clock, w.clock
	}
	w.Events = append(w.Events, e)
	return &w.Events[len(w.Events)-1]
}

// errInfo turns an error into the logged reply facts.
func errInfo(err error) map[string]any {
	r := map[string]any{"ok": false, "code": 0, "detail": "", "panic": false}
	if err == nil {
		r["ok"] = true
		return r
	}
	r["detail"] = err.Error()
	switch e := err.(type) {
	case cashu.Error:
		r["code"] = int(e.Code)
	case *cashu.Error:
		r["code"] = int(e.Code)
	}
	return r
}

// guard runs fn, converting a panic or a hang into facts.
func (w *World) guard(fn func() error) (err error, panicked bool, panicMsg string) {
	if w.Conc || w.Inline {
		// already on the operation's own (scheduled) goroutine: the mint must be called from it.
		// The world lock serialises registry access between concurrent operations and is
		// released for the duration of the call into the mint.
		if w.Conc {
			w.Big.Unlock()
			defer w.Big.Lock()
		}
		c := w.Tick()
		func() {
			defer func() {
				if rec := recover(); rec != nil {
					panicked = true
					panicMsg = fmt.Sprint(rec)
				}
			}()
			err = fn()
		}()
		t := w.Tick()
		w.evMu.Lock()
		if w.spans == nil {
			w.spans = map[int64][2]int64{}
		}
		w.spans[sched.Gid()] = [2]int64{c, t}
		w.evMu.Unlock()
		return
	}
	done := make(chan struct{})
	go func() {
		defer close(done)
		defer func() {
			if rec := recover(); rec != nil {
				panicked = true
				panicMsg = fmt.Sprint(rec)
			}
		}()
		err = fn()
	}()
	select {
	case <-done:
	case <-time.After(w.OpTimeout):
		panicked = true
		panicMsg = "timeout (operation hung)"
	}
	return
}

// ---------- projection ----------

// Project reads the real state through the read-only methods of the underlying store
// (bypassing scheduler and log) plus the Lightning model's own books.
func (w *World) Project() map[string]any {
	reg := w.Reg
	proofs := map[string]any{}
	reg.mu.Lock()
	secs := make([]*SecretInfo, 0, len(reg.Secrets))
	for _, s := range reg.Secrets {
		secs = append(secs, s)
	}
	outs := make([]*OutputInfo, 0, len(reg.Outputs))
	for _, o := range reg.Outputs {
		outs = append(outs, o)
	}
	reg.mu.Unlock()
	var ys []string
	for _, s := range secs {
		if s.Y != "" {
			ys = append(ys, s.Y)
		}
	}
	usedBy, pendBy := map[string]storage.DBProof{}, map[string]storage.DBProof{}
	if len(ys) > 0 {
		if used, err := w.Raw.GetProofsUsed(ys); err == nil {
			for _, u := range used {
				usedBy[u.Y] = u
			}
		}
		if pend, err := w.Raw.GetPendingProofs(ys); err == nil {
			for _, u := range pend {
				pendBy[u.Y] = u
			}
		}
	}
	for _, s := range secs {
		if s.Y == "" {
			continue
		}
		st, by, wit := "unspent", "", "none"
		if u, ok := usedBy[s.Y]; ok {
			st = "spent"
			wit = reg.WitID(u.Witness)
		}
		if u, ok := pendBy[s.Y]; ok {
			if st == "spent" {
				st = "both"
			} else {
				st = "pending"
				wit = reg.WitID(u.Witness)
			}
			by = reg.lqByReal[u.MeltQuoteId]
			if by == "" {
				by = "?" + u.MeltQuoteId
			}
		}
		proofs[s.ID] = map[string]any{"st": st, "by": by, "wit": wit}
	}
	sigs := map[string]any{}
	for _, o := range outs {
		sig, err := w.Raw.GetBlindSignature(o.B_)
		if err == nil {
			ks := reg.ksByReal[sig.Id]
			// amounts beyond what TLC's integers hold travel as decimal strings next to amt = 0 (MintAPI refuses such outputs, so a
			// stored signature of that size is a mismatch in any case, not a value to compute with)
			a, bg, _ := amtFacts(sig.Amount)
			sigs[o.ID] = map[string]any{"ks": ks, "amt": a, "big": bg, "tag": SigTag(sig), "sec": o.Sec,
				"lock": reg.Secrets[o.Sec].Lock}
		}
	}
	mq := map[string]any{}
	for id, q := range reg.MintQ {
		if row, err := w.Raw.GetMintQuote(q.Real); err == nil {
			settled := false
			if inv := w.Net.InvoiceOf(q.Hash); inv != nil {
				settled = inv.Settled
			}
			mq[id] = map[string]any{"st": row.State.String(), "settled": settled}
		}
	}
	lq := map[string]any{}
	for id, q := range reg.MeltQ {
		if row, err := w.Raw.GetMeltQuote(q.Real); err == nil {
			truth := "none"
			if p := w.Net.PaymentOf(w.Node.Name, q.Hash); p != nil {
				truth = string(p.Truth)
			}
			pre := "none"
			if row.Preimage != "" {
				pre = "wrong"
				if inv := w.Net.InvoiceOf(q.Hash); inv != nil && inv.Preimage == row.Preimage {
					pre = "right"
				}
			}
			lq[id] = map[string]any{"st": row.State.String(), "pre": pre, "truth": truth}
		}
	}
	ks := map[string]any{}
	if dbks, err := w.Raw.GetKeysets(); err == nil {
		for _, k := range dbks {
			ks[fmt.Sprintf("k%d", k.DerivationPathIdx)] = map[string]any{"active": k.Active, "fee": int(k.InputFeePpk), "id": k.Id}
		}
	}
	issued, redeemed := map[string]any{}, map[string]any{}
	if m, err := w.Raw.GetIssuedEcash(); err == nil {
		for k, v := range m {
			issued[reg.ksByReal[k]] = amtJSON(v)
		}
	}
	if m, err := w.Raw.GetRedeemedEcash(); err == nil {
		for k, v := range m {
			redeemed[reg.ksByReal[k]] = amtJSON(v)
		}
	}
	in, out := w.Net.Snapshot()
	return map[string]any{
		"proofs": proofs, "sigs": sigs, "mq": mq, "lq": lq, "ks": ks,
		"issued": issued, "redeemed": redeemed,
		"lnin": amtJSON(in[w.Node.Name]), "lnout": amtJSON(out[w.Node.Name]),
	}
}

// amtJSON keeps numbers TLC can hold as integers; anything larger travels as a decimal string.
// amtJSON: totals the mint reports. A total beyond what TLC's integers hold cannot come from the small amounts the histories
// use; it is reported as -1 (which equals nothing the specification computes) rather than as a string, which TLC refuses
// to compare with a number.
func amtJSON(v uint64) any {
	if v < 1<<30 {
		return int(v)
	}
	return -1
}

// WriteTrace appends events as ndjson.
func WriteTrace(path string, evs []Event) error {
	f, err := os.OpenFile(path, os.O_CREATE|os.O_WRONLY|os.O_APPEND, 0o644)
	if err != nil {
		return err
	}
	defer f.Close()
	enc := json.NewEncoder(f)
	for _, e := range evs {
		if err := enc.Encode(e); err != nil {
			return err
		}
	}
	return nil
}

func sortedKeys[M ~map[string]V, V any](m M) []string {
	ks := make([]string, 0, len(m))
	for k := range m {
		ks = append(ks, k)
	}
	sort.Strings(ks)
	return ks
}

func isHex(s string) bool {
	_, err := hex.DecodeString(s)
	return err == nil && !strings.ContainsAny(s, " ")
}

var _ = context.Background

// LimitFacts renders the configured limits for the trace (0 = unset).
func LimitFacts(l mint.MintLimits) map[string]any {
	return map[string]any{"maxbal": amtJSON(l.MaxBalance), "maxmint": amtJSON(l.MintingSettings.MaxAmount), "maxmelt": amtJSON(l.MeltingSettings.MaxAmount)}
}

// EmitInit records the configuration event that starts a trace.
func (w *World) EmitInit(cfg map[string]any) *Event {
	w.refreshKeysets()
	return w.emit("init", cfg, map[string]any{"ok": true})
}

// RefreshKeysets re-reads the keyset rows into the registry.
func (w *World) RefreshKeysets() error { return w.refreshKeysets() }
