package world

import (
	"context"
	"crypto/sha256"
	"encoding/hex"
	"encoding/json"
	"fmt"
	"math/big"
	"strconv"
	"strings"
	"time"

	"github.com/btcsuite/btcd/btcec/v2/schnorr"
	"github.com/decred/dcrd/dcrec/secp256k1/v4"
	"github.com/elnosh/gonuts/cashu"
	"github.com/elnosh/gonuts/cashu/nuts/nut04"
	"github.com/elnosh/gonuts/cashu/nuts/nut05"
	"github.com/elnosh/gonuts/cashu/nuts/nut20"
	"github.com/elnosh/gonuts/mint/storage"
	decodepay "github.com/nbd-wtf/ln-decodepay"

	"verif/harness/lnmodel"
	"verif/harness/sched"
)

// ---------- abstract operations (input language of every driver) ----------

type InSpec struct {
	P   string `json:"p"`   // output id whose proof is presented
	Var string `json:"var"` // variant, see buildInput
}

type OutSpec struct {
	Amt    uint64 `json:"amt"`
	Big    string `json:"big,omitempty"`  // e.g. "2^59", "2^63", "2^64-1": overrides Amt
	Ks     string `json:"ks"`             // "", "active", "k<idx>", "unknown", "nothex"
	B      string `json:"b"`              // "", "new" or an existing output id (re-submission)
	Sec    string `json:"sec,omitempty"`  // reuse this secret id with a fresh blinding factor
	Lock   string `json:"lock,omitempty"` // lock the fresh secret to this key id
	Form   string `json:"form,omitempty"` // "", "ok", "nothex", "offcurve", "empty"
	SecLen int    `json:"seclen,omitempty"`
	SecMB  bool   `json:"secmb,omitempty"` // with SecLen: the secret is made of two-byte characters (bytes > characters)
}

type Op struct {
	Op     string    `json:"op"`
	Q      string    `json:"q,omitempty"`
	Amt    uint64    `json:"amt,omitempty"`
	Big    string    `json:"big,omitempty"`
	Lock   string    `json:"lock,omitempty"`
	Ins    []InSpec  `json:"ins,omitempty"`
	Outs   []OutSpec `json:"outs,omitempty"`
	Sig    string    `json:"sig,omitempty"`
	Kind   string    `json:"kind,omitempty"` // meltquote: ext | int | mpp
	Msat   uint64    `json:"msat,omitempty"`
	Pay    []string  `json:"pay,omitempty"`
	Status []string  `json:"status,omitempty"`
	Ys     []string  `json:"ys,omitempty"`
	Bs     []string  `json:"bs,omitempty"`
	Fee    uint      `json:"fee,omitempty"`
	Rotate bool      `json:"rotate,omitempty"`
	LnErr  bool      `json:"lnerr,omitempty"`
	Unit   string    `json:"unit,omitempty"`
}

func parseBig(s string) uint64 {
	switch {
	case s == "":
		return 0
	case strings.HasPrefix(s, "2^"):
		rest := s[2:]
		minus := uint64(0)
		if i := strings.IndexByte(rest, '-'); i >= 0 {
			m, _ := strconv.ParseUint(rest[i+1:], 10, 64)
			minus = m
			rest = rest[:i]
		}
		e, _ := strconv.Atoi(rest)
		if e >= 64 {
			return ^uint64(0) - minus + 1
		}
		return (uint64(1) << uint(e)) - minus
	}
	v, _ := strconv.ParseUint(s, 10, 64)
	return v
}

func isKeyAmount(v uint64) bool {
	return v != 0 && v&(v-1) == 0 && v <= 1<<59
}

// amtFacts: amounts the specification computes with stay small enough for TLC's 32-bit integers even when summed and
// multiplied by 1000 (msat); anything from 2^17 on travels as a decimal string ("big") and is refused by MintAPI by cause.
func amtFacts(v uint64) (amt int, bigs string, isKey bool) {
	isKey = isKeyAmount(v)
	if v < 1<<17 {
		return int(v), "", isKey
	}
	return 0, fmt.Sprintf("%d", v), isKey
}

func (w *World) resolveKs(spec string) (real string, abs string) {
	switch spec {
	case "", "active":
		k := w.ActiveKeyset()
		return k.Real, k.ID
	case "unknown":
		return "00ffffffffffffff", "kunknown"
	case "nothex":
		return "zz-not-hex", "knothex"
	}
	if k, ok := w.Reg.Keysets[spec]; ok {
		return k.Real, k.ID
	}
	return "00eeeeeeeeeeeeee", "kunknown"
}

// buildOutputs creates the blinded messages of a request and the facts about them.
func (w *World) buildOutputs(specs []OutSpec) (cashu.BlindedMessages, []any, bool, []*OutputInfo) {
	msgs := make(cashu.BlindedMessages, 0, len(specs))
	facts := make([]any, 0, len(specs))
	infos := make([]*OutputInfo, 0, len(specs))
	sum := new(big.Int)
	for _, sp := range specs {
		amt := sp.Amt
		if sp.Big != "" {
			amt = parseBig(sp.Big)
		}
		ksReal, ksAbs := w.resolveKs(sp.Ks)
		var oi *OutputInfo
		if sp.B != "" && sp.B != "new" {
			oi = w.Reg.Outputs[sp.B]
		}
		if oi == nil {
			secID := sp.Sec
			if sp.SecLen > 0 {
				filler := strings.Repeat("a", sp.SecLen-16)
				if sp.SecMB {
					filler = strings.Repeat("\u00e9", (sp.SecLen-16)/2)
				}
				si := w.Reg.InternSecret(filler+hex.EncodeToString(w.rng.bytes(8)), "none")
				if sp.Lock != "" && sp.Lock != "none" {
					// a well-formed P2PK secret of exactly SecLen bytes (the nonce is padded)
					pk := w.Reg.LockKey(sp.Lock).PubKey()
					frame := fmt.Sprintf(`["P2PK",{"nonce":"","data":"%s","tags":[]}]`, hex.EncodeToString(pk.SerializeCompressed()))
					nonce := hex.EncodeToString(w.rng.bytes(8)) + strings.Repeat("0", sp.SecLen-len(frame)-16)
					si = w.Reg.InternSecret(fmt.Sprintf(`["P2PK",{"nonce":"%s","data":"%s","tags":[]}]`, nonce,
						hex.EncodeToString(pk.SerializeCompressed())), sp.Lock)
				}
				secID = si.ID
			}
			oi = w.NewOutput(secID, sp.Lock, ksReal, amt)
		}
		if sp.Form == "upper" {
			// the same blinded message spelled in upper-case hex: another string for the same point.  It is an output of its
			// own for the registry (the mint stores signatures by the string it was sent).
			w.Reg.mu.Lock()
			w.Reg.nOut++
			up := &OutputInfo{ID: fmt.Sprintf("b%d", w.Reg.nOut), Sec: oi.Sec, R: oi.R, B_: strings.ToUpper(oi.B_), KsReal: oi.KsReal, Amt: amt}
			w.Reg.Outputs[up.ID] = up
			w.Reg.outByB[up.B_] = up.ID
			w.Reg.OutOrder = append(w.Reg.OutOrder, up.ID)
			w.Reg.mu.Unlock()
			oi = up
			sp.Form = "ok"
		}
		B_ := oi.B_
		form := sp.Form
		if form == "" {
			form = "ok"
		}
		switch form {
		case "nothex":
			B_ = "zz" + B_[2:]
		case "offcurve":
			B_ = "02" + strings.Repeat("00", 31) + "05"
		case "empty":
			B_ = ""
		}
		msgs = append(msgs, cashu.BlindedMessage{Amount: amt, B_: B_, Id: ksReal})
		a, bg, isKey := amtFacts(amt)
		facts = append(facts, map[string]any{"b": oi.ID, "sec": oi.Sec, "ks": ksAbs, "amt": a, "big": bg,
			"amtkey": isKey, "form": form, "lock": w.Reg.Secrets[oi.Sec].Lock})
		infos = append(infos, oi)
		sum.Add(sum, new(big.Int).SetUint64(amt))
	}
	ovf := sum.BitLen() > 64
	return msgs, facts, ovf, infos
}

func randomPoint(seed []byte) string {
	h := sha256.Sum256(seed)
	k := secp256k1.PrivKeyFromBytes(h[:])
	return hex.EncodeToString(k.PubKey().SerializeCompressed())
}

func (w *World) p2pkWitness(secret string, keyID string) string {
	k := w.Reg.LockKey(keyID)
	h := sha256.Sum256([]byte(secret))
	sig, err := schnorr.Sign(k, h[:])
	if err != nil {
		panic(err)
	}
	b, _ := json.Marshal(map[string]any{"signatures": []string{hex.EncodeToString(sig.Serialize())}})
	return string(b)
}

// buildInput turns an input spec into a real proof plus the facts about it. Variants
// (comma separated): wit | sign:<K> | dleq | amt:<n> | amtbig:<s> | ks:<kid> | ksunknown |
// ksnothex | c:<bid> | cgarbage | cflipx | cflippar | cnothex | cempty | coffcurve |
// secedit | honest. A locked secret is signed with its own key unless a variant says otherwise.
func (w *World) buildInput(sp InSpec) (cashu.Proof, map[string]any) {
	proof, ok := w.ProofOf(sp.P)
	oi := w.Reg.Outputs[sp.P]
	corig := sp.P
	if !ok {
		// no signature was ever handed out for this output: present a made-up proof
		ksReal, _ := w.resolveKs("active")
		secret := hex.EncodeToString(w.rng.bytes(32))
		amt := uint64(1)
		if oi != nil {
			secret = w.Reg.Secrets[oi.Sec].Secret
			amt = oi.Amt
			ksReal = oi.KsReal
		}
		proof = cashu.Proof{Amount: amt, Id: ksReal, Secret: secret, C: randomPoint([]byte(secret))}
		corig = "garbage"
	}
	lock := "none"
	if oi != nil {
		lock = w.Reg.Secrets[oi.Sec].Lock
	}
	signer := "none"
	if lock != "none" {
		signer = lock
	}
	dleq := false
	for _, v := range strings.Split(sp.Var, ",") {
		v = strings.TrimSpace(v)
		switch {
		case v == "" || v == "honest":
		case v == "wit":
			signer = "garbage"
		case v == "nosign":
			signer = "none"
		case strings.HasPrefix(v, "sign:"):
			signer = v[5:]
		case v == "dleq":
			dleq = true
		case strings.HasPrefix(v, "amt:"):
			n, _ := strconv.ParseUint(v[4:], 10, 64)
			proof.Amount = n
		case strings.HasPrefix(v, "amtbig:"):
			proof.Amount = parseBig(v[7:])
		case strings.HasPrefix(v, "ks:"):
			real, _ := w.resolveKs(v[3:])
			proof.Id = real
		case v == "ksunknown":
			proof.Id = "00ffffffffffffff"
		case v == "ksnothex":
			proof.Id = "zz-not-hex"
		case strings.HasPrefix(v, "c:"):
			if other, ok := w.ProofOf(v[2:]); ok {
				proof.C = other.C
				corig = v[2:]
			} else {
				proof.C = randomPoint([]byte(v))
				corig = "garbage"
			}
		case v == "cgarbage":
			proof.C = randomPoint(w.rng.bytes(8))
			corig = "garbage"
		case v == "cflipx":
			b := []byte(proof.C)
			if b[10] == 'a' {
				b[10] = 'b'
			} else {
				b[10] = 'a'
			}
			proof.C = string(b)
			if _, err := secp256k1.ParsePubKey(mustHex(proof.C)); err != nil {
				corig = "malformed"
			} else {
				corig = "garbage"
			}
		case v == "cflippar":
			if strings.HasPrefix(proof.C, "02") {
				proof.C = "03" + proof.C[2:]
			} else {
				proof.C = "02" + proof.C[2:]
			}
			corig = "garbage"
		case v == "cnothex":
			proof.C = "zz" + proof.C[2:]
			corig = "malformed"
		case v == "cempty":
			proof.C = ""
			corig = "malformed"
		case v == "coffcurve":
			proof.C = "02" + strings.Repeat("00", 31) + "05"
			corig = "malformed"
		case v == "secedit":
			proof.Secret = proof.Secret + "x"
		}
	}
	switch signer {
	case "none":
		proof.Witness = ""
	case "garbage":
		proof.Witness = `{"signatures":["` + strings.Repeat("ab", 64) + `"]}`
	default:
		proof.Witness = w.p2pkWitness(proof.Secret, signer)
	}
	if dleq {
		proof.DLEQ = &cashu.DLEQProof{E: strings.Repeat("11", 32), S: strings.Repeat("22", 32), R: strings.Repeat("33", 32)}
	}
	si := w.Reg.InternSecret(proof.Secret, lock)
	ksAbs := w.Reg.ksByReal[proof.Id]
	if ksAbs == "" {
		if isHex(proof.Id) {
			ksAbs = "kunknown"
		} else {
			ksAbs = "knothex"
		}
	}
	a, bg, isKey := amtFacts(proof.Amount)
	facts := map[string]any{"p": sp.P, "sec": si.ID, "ks": ksAbs, "amt": a, "big": bg, "amtkey": isKey,
		"corig": corig, "signer": signer, "lock": si.Lock, "wit": w.Reg.WitID(proof.Witness), "dleq": dleq,
		"long": len(proof.Secret) > cashu.MAX_SECRET_LENGTH, "var": sp.Var}
	return proof, facts
}

func mustHex(s string) []byte {
	b, _ := hex.DecodeString(s)
	return b
}

func (w *World) recordSigs(infos []*OutputInfo, sigs cashu.BlindedSignatures) []any {
	out := []any{}
	for i, s := range sigs {
		if i >= len(infos) {
			out = append(out, map[string]any{"b": "extra", "ks": w.Reg.ksByReal[s.Id], "amt": 0, "big": "", "tag": SigTag(s)})
			continue
		}
		oi := infos[i]
		tag := SigTag(s)
		if !oi.Signed {
			oi.Signed = true
			oi.Sig = s
			oi.Tag = tag
		}
		a, bg, _ := amtFacts(s.Amount)
		out = append(out, map[string]any{"b": oi.ID, "ks": w.Reg.ksByReal[s.Id], "amt": a, "big": bg, "tag": tag})
	}
	return out
}

func (w *World) lnFacts(since int) []any { return w.lnFactsFor(since, "") }

// lnFactsFor lists the backend calls made since `since`, restricted to one payment hash when
// operations run concurrently.
func (w *World) lnFactsFor(since int, hash string) []any {
	calls := w.Net.CallsSince(since)
	out := []any{}
	me := sched.Gid()
	for _, c := range calls {
		if c.Node != w.Node.Name {
			continue
		}
		if hash != "" && w.Conc && c.Hash != hash {
			continue
		}
		// concurrent requests on the same quote: only the calls this request made itself
		if w.Conc && c.Gid != me {
			continue
		}
		a, bg, _ := amtFacts(c.Amount)
		out = append(out, map[string]any{"name": c.Name, "answer": c.Answer, "feelimit": int(c.FeeLimit), "msat": a, "msatbig": bg,
			"q": w.quoteOfHash(c.Hash)})
	}
	return out
}

func (w *World) quoteOfHash(hash string) string {
	for id, q := range w.Reg.MeltQ {
		if q.Hash == hash {
			return id
		}
	}
	for id, q := range w.Reg.MintQ {
		if q.Hash == hash {
			return id
		}
	}
	return ""
}

func answers[T ~string](ss []string) []T {
	out := make([]T, len(ss))
	for i, s := range ss {
		out[i] = T(s)
	}
	return out
}

func (w *World) setScript(hash string, pay, status []string) {
	if len(pay) == 0 && len(status) == 0 {
		return
	}
	s := w.Node.Scripts[hash]
	if s == nil {
		s = &lnmodel.Script{}
		w.Node.Scripts[hash] = s
	}
	s.Pay = append(s.Pay, answers[lnmodel.PayAnswer](pay)...)
	s.Status = append(s.Status, answers[lnmodel.StatusAnswer](status)...)
}

func finish(r map[string]any, err error, panicked bool, msg string) map[string]any {
	ri := errInfo(err)
	for k, v := range ri {
		r[k] = v
	}
	if panicked {
		r["ok"] = false
		r["panic"] = true
		r["detail"] = msg
	}
	return r
}

// ---------- executing operations ----------

// Exec runs one abstract operation on the real mint and records the event.
func (w *World) Exec(op Op) *Event {
	if w.Conc {
		w.Big.Lock()
		defer w.Big.Unlock()
	}
	switch op.Op {
	case "mintquote":
		return w.opMintQuote(op)
	case "settle":
		return w.opSettle(op)
	case "notify":
		return w.opNotify(op)
	case "pollmint":
		return w.opPollMint(op)
	case "mint":
		return w.opMint(op)
	case "swap":
		return w.opSwap(op)
	case "meltquote":
		return w.opMeltQuote(op)
	case "melt":
		return w.opMelt(op)
	case "pollmelt":
		return w.opPollMelt(op)
	case "checkstate":
		return w.opCheckState(op)
	case "restore":
		return w.opRestore(op)
	case "balances":
		return w.opBalances(op)
	case "keysets":
		return w.opKeysets(op)
	case "rotate":
		return w.opRotate(op)
	case "restart":
		return w.opRestart(op)
	case "sync":
		return w.emit("sync", nil, nil)
	case "malformed":
		return w.opMalformed(op)
	case "replay":
		return w.opReplay(op)
	case "keyshape":
		shape := "not-run"
		err, pan, msg := w.guard(func() error {
			shape = w.KeysShape()
			return nil
		})
		r := finish(map[string]any{"shape": shape}, err, pan, msg)
		return w.emit("keyshape", nil, r)
	}
	panic("unknown op " + op.Op)
}

func (w *World) opMintQuote(op Op) *Event {
	amt := op.Amt
	if op.Big != "" {
		amt = parseBig(op.Big)
	}
	unit := op.Unit
	if unit == "" {
		unit = "sat"
	}
	req := nut04.PostMintQuoteBolt11Request{Amount: amt, Unit: unit}
	lock := "none"
	if op.Lock != "" && op.Lock != "none" {
		lock = op.Lock
		req.Pubkey = hex.EncodeToString(w.Reg.LockKey(op.Lock).PubKey().SerializeCompressed())
	}
	since := w.Net.Seq()
	var q storage.MintQuote
	id := w.Reg.NextQuoteID("mq")
	w.announce("mintquote", map[string]any{"amt": int(amt % (1 << 30)), "big": "", "lock": lock, "unit": unit})
	err, pan, msg := w.guard(func() error {
		var e error
		q, e = w.API().RequestMintQuote(req)
		return e
	})
	a, bg, _ := amtFacts(amt)
	r := finish(map[string]any{"q": ""}, err, pan, msg)
	if err == nil && !pan {
		w.Reg.MintQ[id] = &MintQuoteInfo{ID: id, Real: q.Id, Hash: q.PaymentHash, Request: q.PaymentRequest, Amt: amt, LockKey: lock}
		w.Reg.mqByReal[q.Id] = id
		r["q"] = id
		r["st"] = q.State.String()
		// let the background watcher reach its subscription before anything else happens
		w.waitSubscribed(q.PaymentHash)
	}
	return w.emit("mintquote", map[string]any{"amt": a, "big": bg, "lock": lock, "unit": unit, "ln": w.lnFacts(since)}, r)
}

func (w *World) waitSubscribed(hash string) {
	deadline := time.Now().Add(2 * time.Second)
	for w.Net.Subscribers(hash) == 0 && time.Now().Before(deadline) {
		time.Sleep(200 * time.Microsecond)
	}
}

func (w *World) opSettle(op Op) *Event {
	q := w.Reg.MintQ[op.Q]
	ok := false
	if q != nil {
		ok = w.Net.SettleExternally(q.Hash) == nil
	}
	return w.emit("settle", map[string]any{"q": op.Q}, map[string]any{"ok": ok})
}

// opNotify fires the "invoice settled" subscription of a mint quote and waits for the
// watcher's storage write to complete.
func (w *World) opNotify(op Op) *Event {
	q := w.Reg.MintQ[op.Q]
	fired := 0
	if q != nil {
		done := make(chan struct{}, 4)
		w.DB.OnCall = func(name string, err error) {
			if name == "UpdateMintQuoteState" {
				select {
				case done <- struct{}{}:
				default:
				}
			}
		}
		inv := w.Net.InvoiceOf(q.Hash)
		fired = w.Net.Notify(q.Hash)
		if fired > 0 && inv != nil && inv.Settled {
			select {
			case <-done:
			case <-time.After(2 * time.Second):
			}
		}
		w.DB.OnCall = nil
	}
	return w.emit("notify", map[string]any{"q": op.Q, "fired": fired}, map[string]any{"ok": true})
}

func (w *World) opPollMint(op Op) *Event {
	real := "nonexistent-quote"
	if q := w.Reg.MintQ[op.Q]; q != nil {
		real = q.Real
	}
	w.Node.InvoiceStatusErr = op.LnErr
	since := w.Net.Seq()
	var q storage.MintQuote
	err, pan, msg := w.guard(func() error {
		var e error
		q, e = w.API().GetMintQuoteState(real)
		return e
	})
	w.Node.InvoiceStatusErr = false
	r := finish(map[string]any{"st": ""}, err, pan, msg)
	if err == nil && !pan {
		r["st"] = q.State.String()
	}
	return w.emit("pollmint", map[string]any{"q": op.Q, "lnerr": op.LnErr, "ln": w.lnFactsFor(since, w.mqHash(op.Q))}, r)
}

func (w *World) opMint(op Op) *Event {
	real := "nonexistent-quote"
	qi := w.Reg.MintQ[op.Q]
	if qi != nil {
		real = qi.Real
	}
	msgs, facts, ovf, infos := w.buildOutputs(op.Outs)
	req := nut04.PostMintBolt11Request{Quote: real, Outputs: msgs}
	sigClass := op.Sig
	if sigClass == "" {
		if qi != nil && qi.LockKey != "none" {
			sigClass = "valid"
		} else {
			sigClass = "none"
		}
	}
	signWith := func(keyID, quote string, m cashu.BlindedMessages) string {
		s, err := nut20.SignMintQuote(w.Reg.LockKey(keyID), quote, m)
		if err != nil {
			return ""
		}
		return hex.EncodeToString(s.Serialize())
	}
	lockKey := "K1"
	if qi != nil && qi.LockKey != "none" {
		lockKey = qi.LockKey
	}
	switch sigClass {
	case "valid":
		req.Signature = signWith(lockKey, real, msgs)
	case "none":
	case "garbage":
		req.Signature = strings.Repeat("cd", 64)
	case "nothex":
		req.Signature = "zz" + strings.Repeat("cd", 63)
	case "wrongkey":
		req.Signature = signWith(lockKey+"x", real, msgs)
	case "otherquote":
		req.Signature = signWith(lockKey, real+"0", msgs)
	case "reordered":
		if len(msgs) >= 2 {
			rev := make(cashu.BlindedMessages, len(msgs))
			for i := range msgs {
				rev[len(msgs)-1-i] = msgs[i]
			}
			req.Signature = signWith(lockKey, real, rev)
		} else {
			sigClass = "otherquote"
			req.Signature = signWith(lockKey, real+"0", msgs)
		}
	case "added":
		id := w.ActiveKeyset().Real
		req.Signature = signWith(lockKey, real, append(append(cashu.BlindedMessages{}, msgs...), cashu.BlindedMessage{Amount: 1, B_: randomPoint(w.rng.bytes(8)), Id: id}))
	case "removed":
		if len(msgs) >= 1 {
			req.Signature = signWith(lockKey, real, msgs[:len(msgs)-1])
		}
	}
	w.Node.InvoiceStatusErr = op.LnErr
	since := w.Net.Seq()
	var sigs cashu.BlindedSignatures
	w.announce("mint", map[string]any{"q": op.Q, "outs": facts, "ovf": ovf, "sig": sigClass, "lnerr": op.LnErr})
	err, pan, msg := w.guard(func() error {
		var e error
		sigs, e = w.API().MintTokens(req)
		return e
	})
	w.Node.InvoiceStatusErr = false
	r := finish(map[string]any{"sigs": []any{}}, err, pan, msg)
	if err == nil && !pan {
		r["sigs"] = w.recordSigs(infos, sigs)
	}
	return w.emit("mint", map[string]any{"q": op.Q, "outs": facts, "ovf": ovf, "sig": sigClass, "lnerr": op.LnErr, "ln": w.lnFactsFor(since, w.mqHash(op.Q))}, r)
}

func (w *World) buildInputs(specs []InSpec) (cashu.Proofs, []any) {
	proofs := make(cashu.Proofs, 0, len(specs))
	facts := make([]any, 0, len(specs))
	for _, sp := range specs {
		p, f := w.buildInput(sp)
		proofs = append(proofs, p)
		facts = append(facts, f)
	}
	return proofs, facts
}

func (w *World) opSwap(op Op) *Event {
	proofs, inFacts := w.buildInputs(op.Ins)
	msgs, outFacts, ovf, infos := w.buildOutputs(op.Outs)
	var sigs cashu.BlindedSignatures
	w.announce("swap", map[string]any{"ins": inFacts, "outs": outFacts, "ovf": ovf})
	err, pan, msg := w.guard(func() error {
		var e error
		sigs, e = w.API().Swap(proofs, msgs)
		return e
	})
	r := finish(map[string]any{"sigs": []any{}}, err, pan, msg)
	if err == nil && !pan {
		r["sigs"] = w.recordSigs(infos, sigs)
	}
	return w.emit("swap", map[string]any{"ins": inFacts, "outs": outFacts, "ovf": ovf}, r)
}

func (w *World) opMeltQuote(op Op) *Event {
	kind := op.Kind
	if kind == "" {
		kind = "ext"
	}
	var request, hash, target string
	var msat, forgedMsat uint64
	amt := op.Amt
	switch kind {
	case "forged":
		// an invoice made by somebody else that carries the payment hash of one of the mint's own invoices and another amount
		if q := w.Reg.MintQ[op.Q]; q != nil {
			fm := op.Msat
			if fm == 0 || fm == q.Amt*1000 {
				fm = 1000
				if fm == q.Amt*1000 {
					fm = 2000 // the forged amount always differs from the mint quote's
				}
			}
			req, err := lnmodel.ForgeInvoice(fm, q.Hash)
			if err != nil {
				panic(err)
			}
			request, hash, target, amt = req, q.Hash, op.Q, fm/1000
			forgedMsat = fm
		}
	case "int", "mppint":
		if q := w.Reg.MintQ[op.Q]; q != nil {
			request, hash, target, amt = q.Request, q.Hash, op.Q, q.Amt
			if kind == "mppint" {
				msat = op.Msat
				if msat == 0 || msat >= q.Amt*1000 {
					msat = 1000
				}
			}
		}
	default:
		invMsat := amt * 1000
		if kind == "mpp" {
			// invoice is larger than the part this mint pays
			invMsat = op.Msat*2 + 1000
			msat = op.Msat
		} else if op.Msat != 0 {
			invMsat = op.Msat
		}
		inv, err := w.Net.NewInvoice("", invMsat)
		if err != nil {
			panic(err)
		}
		request, hash = inv.Request, inv.Hash
	}
	unit := op.Unit
	if unit == "" {
		unit = "sat"
	}
	req := nut05.PostMeltQuoteBolt11Request{Request: request, Unit: unit}
	if kind == "mpp" || kind == "mppint" {
		req.Options = map[string]nut05.MppOption{"mpp": {AmountMsat: msat}}
	}
	var q storage.MeltQuote
	id := w.Reg.NextQuoteID("lq")
	err, pan, msg := w.guard(func() error {
		var e error
		q, e = w.API().RequestMeltQuote(req)
		return e
	})
	r := finish(map[string]any{"q": "", "amt": 0, "reserve": 0}, err, pan, msg)
	if err == nil && !pan {
		w.Reg.MeltQ[id] = &MeltQuoteInfo{ID: id, Real: q.Id, Hash: hash, Request: request, Amt: q.Amount, Reserve: q.FeeReserve, Kind: kind, Target: target, Msat: msat}
		w.Reg.lqByReal[q.Id] = id
		r["q"] = id
		r["amt"] = amtJSON(q.Amount)
		r["reserve"] = amtJSON(q.FeeReserve)
		r["st"] = q.State.String()
	}
	a, bg, _ := amtFacts(amt)
	invMsat := 0
	if inv := w.Net.InvoiceOf(hash); inv != nil {
		invMsat = int(inv.AmountMsat)
	}
	if forgedMsat != 0 {
		invMsat = int(forgedMsat)
	}
	return w.emit("meltquote", map[string]any{"kind": kind, "amt": a, "big": bg, "target": target, "msat": int(msat), "invmsat": invMsat, "unit": unit}, r)
}

func (w *World) opMelt(op Op) *Event {
	real := "nonexistent-quote"
	qi := w.Reg.MeltQ[op.Q]
	if qi != nil {
		real = qi.Real
		w.setScript(qi.Hash, op.Pay, op.Status)
	}
	proofs, inFacts := w.buildInputs(op.Ins)
	w.Node.InvoiceStatusErr = op.LnErr
	since := w.Net.Seq()
	var q storage.MeltQuote
	w.announce("melt", map[string]any{"q": op.Q, "ins": inFacts, "lnerr": op.LnErr})
	err, pan, msg := w.guard(func() error {
		var e error
		q, e = w.API().MeltTokens(context.Background(), nut05.PostMeltBolt11Request{Quote: real, Inputs: proofs})
		return e
	})
	w.Node.InvoiceStatusErr = false
	r := finish(map[string]any{"st": "", "pre": "none"}, err, pan, msg)
	if err == nil && !pan {
		r["st"] = q.State.String()
		r["pre"] = w.preClass(qi, q.Preimage)
	}
	return w.emit("melt", map[string]any{"q": op.Q, "ins": inFacts, "ln": w.lnFactsFor(since, w.lqHash(op.Q)), "lnerr": op.LnErr}, r)
}

func (w *World) preClass(qi *MeltQuoteInfo, pre string) string {
	if pre == "" {
		return "none"
	}
	if qi != nil {
		if inv := w.Net.InvoiceOf(qi.Hash); inv != nil && inv.Preimage == pre {
			return "right"
		}
	}
	return "wrong"
}

func (w *World) opPollMelt(op Op) *Event {
	real := "nonexistent-quote"
	qi := w.Reg.MeltQ[op.Q]
	if qi != nil {
		real = qi.Real
		w.setScript(qi.Hash, nil, op.Status)
	}
	since := w.Net.Seq()
	var q storage.MeltQuote
	w.announce("pollmelt", map[string]any{"q": op.Q})
	err, pan, msg := w.guard(func() error {
		var e error
		q, e = w.API().GetMeltQuoteState(context.Background(), real)
		return e
	})
	r := finish(map[string]any{"st": "", "pre": "none"}, err, pan, msg)
	if err == nil && !pan {
		r["st"] = q.State.String()
		r["pre"] = w.preClass(qi, q.Preimage)
	}
	return w.emit("pollmelt", map[string]any{"q": op.Q, "ln": w.lnFactsFor(since, w.lqHash(op.Q))}, r)
}

// opCheckState: Ys entries are secret ids, output ids (their secret), "unknown", "malformed", "empty".
func (w *World) opCheckState(op Op) *Event {
	ys := []string{}
	facts := []any{}
	for _, y := range op.Ys {
		switch {
		case y == "unknown":
			ys = append(ys, randomPoint(w.rng.bytes(8)))
			facts = append(facts, "unknown")
		case y == "malformed":
			ys = append(ys, "zz-not-a-point")
			facts = append(facts, "unknown")
		case y == "empty":
			ys = append(ys, "")
			facts = append(facts, "unknown")
		default:
			var si *SecretInfo
			if o, ok := w.Reg.Outputs[y]; ok {
				si = w.Reg.Secrets[o.Sec]
			} else {
				si = w.Reg.Secrets[y]
			}
			if si == nil {
				ys = append(ys, randomPoint([]byte(y)))
				facts = append(facts, "unknown")
			} else {
				ys = append(ys, si.Y)
				facts = append(facts, si.ID)
			}
		}
	}
	for _, q := range w.Reg.MeltQ {
		w.setScript(q.Hash, nil, op.Status)
		if len(op.Status) > 0 {
			break
		}
	}
	since := w.Net.Seq()
	var states []map[string]any
	w.announce("checkstate", map[string]any{"ys": facts})
	err, pan, msg := w.guard(func() error {
		res, e := w.API().ProofsStateCheck(ys)
		if e != nil {
			return e
		}
		for i, s := range res {
			sec := "unknown"
			if i < len(ys) && s.Y == ys[i] {
				if f, ok := facts[i].(string); ok {
					sec = f
				}
			} else if si := w.Reg.SecretByY(s.Y); si != nil {
				sec = "misplaced:" + si.ID
			} else {
				sec = "misplaced"
			}
			states = append(states, map[string]any{"sec": sec, "st": strings.ToLower(s.State.String()), "wit": w.Reg.WitID(s.Witness)})
		}
		return nil
	})
	r := finish(map[string]any{"states": []any{}}, err, pan, msg)
	if err == nil && !pan {
		l := make([]any, len(states))
		for i := range states {
			l[i] = states[i]
		}
		r["states"] = l
	}
	return w.emit("checkstate", map[string]any{"ys": facts, "ln": w.lnFacts(since)}, r)
}

// opRestore: Bs entries are output ids, "unknown", "malformed".
func (w *World) opRestore(op Op) *Event {
	msgs := cashu.BlindedMessages{}
	facts := []any{}
	for _, b := range op.Bs {
		switch b {
		case "unknown":
			msgs = append(msgs, cashu.BlindedMessage{Amount: 1, B_: randomPoint(w.rng.bytes(8)), Id: w.ActiveKeyset().Real})
			facts = append(facts, "unknown")
		case "malformed":
			msgs = append(msgs, cashu.BlindedMessage{Amount: 1, B_: "zz", Id: "zz"})
			facts = append(facts, "unknown")
		default:
			if o, ok := w.Reg.Outputs[b]; ok {
				msgs = append(msgs, cashu.BlindedMessage{Amount: o.Amt, B_: o.B_, Id: o.KsReal})
				facts = append(facts, o.ID)
			} else {
				msgs = append(msgs, cashu.BlindedMessage{Amount: 1, B_: randomPoint([]byte(b)), Id: w.ActiveKeyset().Real})
				facts = append(facts, "unknown")
			}
		}
	}
	var outs, sigs []any
	err, pan, msg := w.guard(func() error {
		ro, rs, e := w.API().RestoreSignatures(msgs)
		if e != nil {
			return e
		}
		for i, m := range ro {
			id := w.Reg.outByB[m.B_]
			if id == "" {
				id = "unknown"
			}
			outs = append(outs, id)
			if i < len(rs) {
				a, bg, _ := amtFacts(rs[i].Amount)
				sigs = append(sigs, map[string]any{"b": id, "ks": w.Reg.ksByReal[rs[i].Id], "amt": a, "big": bg, "tag": SigTag(rs[i])})
			}
		}
		if len(rs) != len(ro) {
			sigs = append(sigs, map[string]any{"b": "lenmismatch", "ks": "", "amt": 0, "big": "", "tag": ""})
		}
		return nil
	})
	r := finish(map[string]any{"outs": []any{}, "sigs": []any{}}, err, pan, msg)
	if err == nil && !pan {
		if outs == nil {
			outs = []any{}
		}
		if sigs == nil {
			sigs = []any{}
		}
		r["outs"], r["sigs"] = outs, sigs
	}
	return w.emit("restore", map[string]any{"bs": facts}, r)
}

func (w *World) opBalances(op Op) *Event {
	r := map[string]any{"ok": true, "panic": false, "issued": map[string]any{}, "redeemed": map[string]any{}, "balance": 0, "disabled": false}
	err, pan, msg := w.guard(func() error {
		iss, e := w.Mint.IssuedEcash()
		if e != nil {
			return e
		}
		red, e := w.Mint.RedeemedEcash()
		if e != nil {
			return e
		}
		bal, e := w.Mint.TotalBalance()
		if e != nil {
			return e
		}
		info, e := w.Mint.RetrieveMintInfo()
		if e != nil {
			return e
		}
		im, rm := map[string]any{}, map[string]any{}
		for k, v := range iss {
			im[w.Reg.ksByReal[k]] = amtJSON(v)
		}
		for k, v := range red {
			rm[w.Reg.ksByReal[k]] = amtJSON(v)
		}
		r["issued"], r["redeemed"], r["balance"], r["disabled"] = im, rm, amtJSON(bal), info.Nuts.Nut04.Disabled
		if w.ViaHTTP {
			// what a client sees: the info endpoint itself
			st, body, pan, _ := w.HTTPDo("GET", "/v1/info", "")
			var hi struct {
				Nuts struct {
					N4 struct {
						Disabled bool `json:"disabled"`
					} `json:"4"`
				} `json:"nuts"`
			}
			if pan || st != 200 || json.Unmarshal([]byte(body), &hi) != nil {
				return fmt.Errorf("info endpoint: status %d", st)
			}
			r["disabled"] = hi.Nuts.N4.Disabled
		}
		return nil
	})
	finish(r, err, pan, msg)
	return w.emit("balances", nil, r)
}

func (w *World) opKeysets(op Op) *Event {
	r := map[string]any{"ok": true, "panic": false}
	list := map[string]any{}
	err, pan, msg := w.guard(func() error {
		w.refreshKeysets()
		for _, k := range w.Mint.ListKeysets().Keysets {
			abs := w.Reg.ksByReal[k.Id]
			if abs == "" {
				abs = "?" + k.Id
			}
			byid, e := w.Mint.GetKeysetById(k.Id)
			nkeys := 0
			if e == nil {
				nkeys = len(byid.Keys)
			}
			list[abs] = map[string]any{"active": k.Active, "fee": int(k.InputFeePpk), "id": k.Id, "nkeys": nkeys, "unit": k.Unit}
		}
		r["activeid"] = w.Mint.GetActiveKeyset().Id
		return nil
	})
	r["list"] = list
	finish(r, err, pan, msg)
	return w.emit("keysets", nil, r)
}

func (w *World) opRotate(op Op) *Event {
	w.announce("rotate", map[string]any{"fee": int(op.Fee)})
	err, pan, msg := w.guard(func() error {
		_, e := w.Mint.RotateKeyset(op.Fee)
		return e
	})
	w.refreshKeysets()
	return w.emit("rotate", map[string]any{"fee": int(op.Fee)}, finish(map[string]any{}, err, pan, msg))
}

func (w *World) opRestart(op Op) *Event {
	w.Close()
	w.cachedReqs, w.lastOKReq, w.lastFailedReq, w.okReqs = nil, nil, nil, nil // the response cache lives in the process
	w.announce("restart", map[string]any{"rotate": op.Rotate, "fee": int(op.Fee)})
	err, pan, msg := w.guard(func() error {
		return w.load(op.Rotate, op.Fee)
	})
	if err != nil || pan {
		// the operator starts the mint again without asking for a rotation
		fault := w.Fault
		w.Fault = false
		w.guard(func() error { return w.load(false, op.Fee) })
		w.Fault = fault
	}
	return w.emit("restart", map[string]any{"rotate": op.Rotate, "fee": int(op.Fee)}, finish(map[string]any{}, err, pan, msg))
}

func (w *World) mqHash(id string) string {
	if q := w.Reg.MintQ[id]; q != nil {
		return q.Hash
	}
	return "-"
}

func (w *World) lqHash(id string) string {
	if q := w.Reg.MeltQ[id]; q != nil {
		return q.Hash
	}
	return "-"
}

// SetScript appends scripted backend answers for a payment hash.
func (w *World) SetScript(hash string, pay, status []string) { w.setScript(hash, pay, status) }

// ClearScript drops what is left of a script.
func (w *World) ClearScript(hash string) { delete(w.Node.Scripts, hash) }

// PaymentHashOf decodes a bolt11 request.
func PaymentHashOf(request string) (string, error) {
	b, err := decodepay.Decodepay(request)
	if err != nil {
		return "", err
	}
	return b.PaymentHash, nil
}

// opReplay: NUT-19. Variants of re-sending the last successful (or failed) swap / mint request.
func (w *World) opReplay(op Op) *Event {
	variant := op.Kind
	base := w.lastOKReq
	if variant == "failed" {
		base = w.lastFailedReq
	}
	if variant == "identical-old" {
		// the oldest request still in the cache, after later ones have been answered
		base = nil
		if len(w.cachedReqs) >= 2 {
			base = w.cachedReqs[0]
		}
	}
	if base == nil {
		return w.emit("replay", map[string]any{"variant": variant, "skipped": true, "path": ""},
			map[string]any{"ok": true, "panic": false, "status": 0, "same": false, "dbcalls": 0, "code": 0, "detail": ""})
	}
	method, path, body := base.Method, base.Path, base.Req
	switch variant {
	case "onebyte":
		body = strings.Replace(body, "{", "{ ", 1)
	case "otherpath":
		if path == "/v1/swap" {
			path = "/v1/mint/bolt11"
		} else {
			path = "/v1/swap"
		}
	case "trailing":
		body = body + " "
	}
	w.DB.TakeLog()
	status, resp, pan, msg := w.HTTPDo(method, path, body)
	calls := len(w.DB.TakeLog())
	code := 0
	var er struct {
		Code *int `json:"code"`
	}
	if json.Unmarshal([]byte(resp), &er) == nil && er.Code != nil {
		code = *er.Code
	}
	r := map[string]any{"ok": status == 200 && !pan, "panic": pan, "status": status, "same": resp == base.Resp, "dbcalls": calls, "code": code, "detail": msg}
	return w.emit("replay", map[string]any{"variant": variant, "skipped": false, "path": base.Path}, r)
}
