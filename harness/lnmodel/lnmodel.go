// Package lnmodel is the Lightning backend model used by every driver: a shared network of
// nodes implementing lightning.Client, with scripted (adversarial) answers, a msat ledger that
// charges the full fee limit it is handed, and driver-controlled invoice notifications.
package lnmodel

import (
	"context"
	"crypto/sha256"
	"encoding/hex"
	"errors"
	"fmt"
	"math"
	"sync"
	"time"
	"verif/harness/sched"

	"github.com/btcsuite/btcd/chaincfg"
	"github.com/decred/dcrd/dcrec/secp256k1/v4"
	"github.com/decred/dcrd/dcrec/secp256k1/v4/ecdsa"
	"github.com/elnosh/gonuts/mint/lightning"
	"github.com/lightningnetwork/lnd/lnwire"
	"github.com/lightningnetwork/lnd/zpay32"
	decodepay "github.com/nbd-wtf/ln-decodepay"
)

type PayAnswer string

const (
	PayDefault PayAnswer = ""
	PaySuccess PayAnswer = "success"
	PayPending PayAnswer = "pending"
	PayFailed  PayAnswer = "failed"
	PayError   PayAnswer = "error"
)

type StatusAnswer string

const (
	StDefault   StatusAnswer = ""
	StNotFound  StatusAnswer = "notfound"
	StError     StatusAnswer = "error"
	StFailed    StatusAnswer = "failed"
	StPending   StatusAnswer = "pending"
	StSucceeded StatusAnswer = "succeeded"
)

type Truth string

const (
	TNone      Truth = "none"
	TInflight  Truth = "inflight"
	TSucceeded Truth = "succeeded"
	TFailed    Truth = "failed"
)

type Invoice struct {
	Request      string
	Hash         string
	Preimage     string
	AmountMsat   uint64
	ReceivedMsat uint64
	Settled      bool
	Owner        string // node name, or "" for an invoice of an outside payee
	Notified     int
}

type Payment struct {
	Hash         string
	Payer        string
	AmountMsat   uint64
	FeeLimitMsat uint64
	Truth        Truth
	Charged      bool
	Partial      bool
	Attempts     int
}

// Call is one call made to the model, as logged.
type Call struct {
	Seq      int    `json:"seq"`
	Node     string `json:"node"`
	Name     string `json:"name"`
	Hash     string `json:"hash,omitempty"`
	Amount   uint64 `json:"amount_msat,omitempty"`
	FeeLimit uint64 `json:"fee_limit_sat,omitempty"`
	Answer   string `json:"answer,omitempty"`
	Gid      int64  `json:"-"` // the goroutine that made the call (which of several concurrent requests)
}

type Script struct {
	Pay    []PayAnswer
	Status []StatusAnswer
}

// Sched is consulted before every backend call (schedule control, crash and error injection).
type Sched interface {
	Point(kind, name string) error
}

type Network struct {
	mu       sync.Mutex
	Invoices map[string]*Invoice
	Payments map[string]*Payment // key payer+"/"+hash
	In       map[string]uint64   // msat received per node
	Out      map[string]uint64   // msat paid out per node (amount + full fee limit)
	Calls    []Call
	subs     map[string][]chan lightning.Invoice
	seq      int
	inv      int
}

func NewNetwork() *Network {
	return &Network{
		Invoices: map[string]*Invoice{},
		Payments: map[string]*Payment{},
		In:       map[string]uint64{},
		Out:      map[string]uint64{},
		subs:     map[string][]chan lightning.Invoice{},
	}
}

type Node struct {
	Net  *Network
	Name string
	// Scripts by payment hash; exhausted or missing scripts fall back to the defaults.
	Scripts map[string]*Script
	// FeeReservePolicy: "zero", "pct1" (ceil 1%), "min1" (max(1, ceil 1%)), "flat2".
	FeeReservePolicy string
	// InvoiceStatusErr makes InvoiceStatus fail (generic backend error).
	InvoiceStatusErr bool
	CreateInvoiceErr bool
	Sched            Sched
	AutoNotify       bool
	// LateAnswers: the answer of a pay / status call is computed when the call is made and delivered at a second
	// scheduling point ("<call>:answer"): a backend that answers slowly while other requests run.
	LateAnswers bool
}

func (n *Network) NewNode(name string) *Node {
	return &Node{Net: n, Name: name, Scripts: map[string]*Script{}, FeeReservePolicy: "pct1"}
}

func (n *Network) log(c Call) {
	n.seq++
	c.Seq = n.seq
	c.Gid = sched.Gid()
	n.Calls = append(n.Calls, c)
}

// MakeInvoice builds a real bolt11 string for amountMsat.
func MakeInvoice(amountMsat uint64, salt string) (req, preimage, hash string, err error) {
	pre := sha256.Sum256([]byte("verif-preimage-" + salt))
	preimage = hex.EncodeToString(pre[:])
	ph := sha256.Sum256(pre[:])
	hash = hex.EncodeToString(ph[:])
	invoice, err := zpay32.NewInvoice(
		&chaincfg.SigNetParams,
		ph,
		time.Now(),
		zpay32.Amount(lnwire.MilliSatoshi(amountMsat)),
		zpay32.Description("verif"),
	)
	if err != nil {
		return "", "", "", err
	}
	key := secp256k1.PrivKeyFromBytes(pre[:])
	req, err = invoice.Encode(zpay32.MessageSigner{
		SignCompact: func(msg []byte) ([]byte, error) {
			return ecdsa.SignCompact(key, msg, true), nil
		},
	})
	return req, preimage, hash, err
}

// ForgeInvoice builds an invoice that carries the payment hash of another invoice but its own amount and signing key
// (anybody can make one: the hash is public). It is not registered: no node of the network issued it.
func ForgeInvoice(amountMsat uint64, hashHex string) (string, error) {
	hb, err := hex.DecodeString(hashHex)
	if err != nil || len(hb) != 32 {
		return "", errors.New("bad payment hash")
	}
	var ph [32]byte
	copy(ph[:], hb)
	invoice, err := zpay32.NewInvoice(&chaincfg.SigNetParams, ph, time.Now(), zpay32.Amount(lnwire.MilliSatoshi(amountMsat)), zpay32.Description("forged"))
	if err != nil {
		return "", err
	}
	seed := sha256.Sum256([]byte("verif-forger-" + hashHex))
	key := secp256k1.PrivKeyFromBytes(seed[:])
	return invoice.Encode(zpay32.MessageSigner{
		SignCompact: func(msg []byte) ([]byte, error) { return ecdsa.SignCompact(key, msg, true), nil },
	})
}

// NewInvoice registers an invoice owned by owner ("" = outside payee).
func (n *Network) NewInvoice(owner string, amountMsat uint64) (*Invoice, error) {
	n.mu.Lock()
	defer n.mu.Unlock()
	n.inv++
	req, pre, hash, err := MakeInvoice(amountMsat, fmt.Sprintf("%s-%d-%d", owner, n.inv, time.Now().UnixNano()))
	if err != nil {
		return nil, err
	}
	inv := &Invoice{Request: req, Hash: hash, Preimage: pre, AmountMsat: amountMsat, Owner: owner}
	n.Invoices[hash] = inv
	return inv, nil
}

// SettleExternally: an outside payer pays a node's invoice.
func (n *Network) SettleExternally(hash string) error {
	n.mu.Lock()
	defer n.mu.Unlock()
	inv, ok := n.Invoices[hash]
	if !ok {
		return errors.New("no such invoice")
	}
	if inv.Settled {
		return nil
	}
	inv.Settled = true
	inv.ReceivedMsat = inv.AmountMsat
	n.In[inv.Owner] += inv.AmountMsat
	n.log(Call{Node: inv.Owner, Name: "ExternalSettle", Hash: hash, Amount: inv.AmountMsat})
	return nil
}

// Notify fires the invoice subscriptions for hash (the "invoice settled" notification).
// Returns the number of subscribers notified.
func (n *Network) Notify(hash string) int {
	n.mu.Lock()
	inv, ok := n.Invoices[hash]
	if !ok {
		n.mu.Unlock()
		return 0
	}
	subs := n.subs[hash]
	if inv.Settled {
		n.subs[hash] = nil
	}
	snapshot := lightning.Invoice{PaymentRequest: inv.Request, PaymentHash: inv.Hash, Preimage: inv.Preimage,
		Settled: inv.Settled, Amount: inv.AmountMsat / 1000}
	inv.Notified++
	n.mu.Unlock()
	for _, ch := range subs {
		ch <- snapshot
	}
	return len(subs)
}

func (n *Network) Subscribers(hash string) int {
	n.mu.Lock()
	defer n.mu.Unlock()
	return len(n.subs[hash])
}

func (n *Network) Snapshot() (in, out map[string]uint64) {
	n.mu.Lock()
	defer n.mu.Unlock()
	in, out = map[string]uint64{}, map[string]uint64{}
	for k, v := range n.In {
		in[k] = v
	}
	for k, v := range n.Out {
		out[k] = v
	}
	return
}

func (n *Network) CallsSince(seq int) []Call {
	n.mu.Lock()
	defer n.mu.Unlock()
	var out []Call
	for _, c := range n.Calls {
		if c.Seq > seq {
			out = append(out, c)
		}
	}
	return out
}

func (n *Network) Seq() int {
	n.mu.Lock()
	defer n.mu.Unlock()
	return n.seq
}

func (n *Network) PaymentOf(payer, hash string) *Payment {
	n.mu.Lock()
	defer n.mu.Unlock()
	p := n.Payments[payer+"/"+hash]
	if p == nil {
		return nil
	}
	c := *p
	return &c
}

func (n *Network) InvoiceOf(hash string) *Invoice {
	n.mu.Lock()
	defer n.mu.Unlock()
	i := n.Invoices[hash]
	if i == nil {
		return nil
	}
	c := *i
	return &c
}

// ---- lightning.Client ----

func (nd *Node) point(name string) error {
	if nd.Sched != nil {
		return nd.Sched.Point("ln", name)
	}
	return nil
}

func (nd *Node) ConnectionStatus() error { return nil }

func (nd *Node) CreateInvoice(amount uint64) (lightning.Invoice, error) {
	if err := nd.point("CreateInvoice"); err != nil {
		return lightning.Invoice{}, err
	}
	if nd.CreateInvoiceErr {
		return lightning.Invoice{}, errors.New("verif: injected lightning error: cannot create invoice (rpc 10.0.7.12:10009)")
	}
	if amount > math.MaxUint64/1000 {
		// amounts this large cannot be encoded; model a backend that still answers.
		inv, err := nd.Net.NewInvoice(nd.Name, 1000)
		if err != nil {
			return lightning.Invoice{}, err
		}
		nd.Net.mu.Lock()
		nd.Net.Invoices[inv.Hash].AmountMsat = math.MaxUint64
		nd.Net.log(Call{Node: nd.Name, Name: "CreateInvoice", Hash: inv.Hash, Amount: math.MaxUint64})
		nd.Net.mu.Unlock()
		return lightning.Invoice{PaymentRequest: inv.Request, PaymentHash: inv.Hash, Amount: amount, Expiry: 3600}, nil
	}
	inv, err := nd.Net.NewInvoice(nd.Name, amount*1000)
	if err != nil {
		return lightning.Invoice{}, err
	}
	nd.Net.mu.Lock()
	nd.Net.log(Call{Node: nd.Name, Name: "CreateInvoice", Hash: inv.Hash, Amount: amount * 1000})
	nd.Net.mu.Unlock()
	return lightning.Invoice{PaymentRequest: inv.Request, PaymentHash: inv.Hash, Amount: amount, Expiry: 3600}, nil
}

func (nd *Node) InvoiceStatus(hash string) (lightning.Invoice, error) {
	if err := nd.point("InvoiceStatus"); err != nil {
		return lightning.Invoice{}, err
	}
	nd.Net.mu.Lock()
	defer nd.Net.mu.Unlock()
	if nd.InvoiceStatusErr {
		nd.Net.log(Call{Node: nd.Name, Name: "InvoiceStatus", Hash: hash, Answer: "error"})
		return lightning.Invoice{}, errors.New("verif: injected lightning error: backend unavailable (rpc 10.0.7.12:10009)")
	}
	inv, ok := nd.Net.Invoices[hash]
	if !ok || inv.Owner != nd.Name {
		nd.Net.log(Call{Node: nd.Name, Name: "InvoiceStatus", Hash: hash, Answer: "unknown"})
		return lightning.Invoice{}, errors.New("invoice does not exist")
	}
	ans := "unsettled"
	if inv.Settled {
		ans = "settled"
	}
	nd.Net.log(Call{Node: nd.Name, Name: "InvoiceStatus", Hash: hash, Answer: ans})
	return lightning.Invoice{PaymentRequest: inv.Request, PaymentHash: inv.Hash, Preimage: inv.Preimage,
		Settled: inv.Settled, Amount: inv.AmountMsat / 1000, Expiry: 3600}, nil
}

func (nd *Node) nextPay(hash string) PayAnswer {
	s := nd.Scripts[hash]
	if s == nil || len(s.Pay) == 0 {
		// "*": a script for whatever payment comes next (its hash is not known in advance)
		s = nd.Scripts["*"]
	}
	if s == nil || len(s.Pay) == 0 {
		return PaySuccess
	}
	a := s.Pay[0]
	s.Pay = s.Pay[1:]
	if a == PayDefault {
		return PaySuccess
	}
	return a
}

func (nd *Node) nextStatus(hash string, truth Truth) StatusAnswer {
	s := nd.Scripts[hash]
	if s == nil || len(s.Status) == 0 {
		s = nd.Scripts["*"]
	}
	if s != nil && len(s.Status) > 0 {
		a := s.Status[0]
		s.Status = s.Status[1:]
		if a != StDefault {
			return a
		}
	}
	switch truth {
	case TInflight:
		return StPending
	case TSucceeded:
		return StSucceeded
	case TFailed:
		return StFailed
	}
	return StNotFound
}

// must hold mu
func (n *Network) succeed(p *Payment) {
	p.Truth = TSucceeded
	if p.Charged {
		return
	}
	p.Charged = true
	n.Out[p.Payer] += p.AmountMsat + p.FeeLimitMsat
	if inv, ok := n.Invoices[p.Hash]; ok && inv.Owner != "" {
		inv.ReceivedMsat += p.AmountMsat
		n.In[inv.Owner] += p.AmountMsat
		if inv.ReceivedMsat >= inv.AmountMsat {
			inv.Settled = true
		}
	} else if ok {
		inv.ReceivedMsat += p.AmountMsat
		if inv.ReceivedMsat >= inv.AmountMsat {
			inv.Settled = true
		}
	}
}

func (nd *Node) pay(ctx context.Context, name, request string, amountMsat, maxFee uint64, partial bool) (lightning.PaymentStatus, error) {
	if err := nd.point(name); err != nil {
		// an injected transport error: the backend never saw the call, the mint saw an error
		h := ""
		if b, derr := decodepay.Decodepay(request); derr == nil {
			h = b.PaymentHash
		}
		nd.Net.mu.Lock()
		nd.Net.log(Call{Node: nd.Name, Name: name, Hash: h, FeeLimit: maxFee, Answer: string(PayError)})
		nd.Net.mu.Unlock()
		return lightning.PaymentStatus{}, err
	}
	bolt11, err := decodepay.Decodepay(request)
	if err != nil {
		return lightning.PaymentStatus{}, fmt.Errorf("error decoding invoice: %v", err)
	}
	hash := bolt11.PaymentHash
	if !partial {
		amountMsat = uint64(bolt11.MSatoshi)
	}
	nd.Net.mu.Lock()
	ans := nd.nextPay(hash)
	key := nd.Name + "/" + hash
	p := nd.Net.Payments[key]
	if p == nil {
		p = &Payment{Hash: hash, Payer: nd.Name, Truth: TNone, Partial: partial}
		nd.Net.Payments[key] = p
	}
	p.Attempts++
	if p.Truth != TSucceeded {
		p.AmountMsat = amountMsat
		p.FeeLimitMsat = maxFee * 1000
	}
	var notifyHash string
	preimage := ""
	if inv, ok := nd.Net.Invoices[hash]; ok {
		preimage = inv.Preimage
	}
	var res lightning.PaymentStatus
	var rerr error
	switch ans {
	case PaySuccess:
		wasSettled := false
		if inv, ok := nd.Net.Invoices[hash]; ok {
			wasSettled = inv.Settled
		}
		nd.Net.succeed(p)
		if inv, ok := nd.Net.Invoices[hash]; ok && inv.Settled && !wasSettled && inv.Owner != "" {
			notifyHash = hash
		}
		res = lightning.PaymentStatus{Preimage: preimage, PaymentStatus: lightning.Succeeded}
	case PayPending:
		if p.Truth == TNone || p.Truth == TFailed {
			p.Truth = TInflight
		}
		res = lightning.PaymentStatus{PaymentStatus: lightning.Pending}
	case PayFailed:
		if p.Truth != TSucceeded {
			p.Truth = TFailed
		}
		res = lightning.PaymentStatus{PaymentStatus: lightning.Failed, PaymentFailureReason: "no route"}
	case PayError:
		if p.Truth == TNone || p.Truth == TFailed {
			p.Truth = TInflight
		}
		rerr = errors.New("verif: injected lightning error: transport error (rpc 10.0.7.12:10009)")
	}
	nd.Net.log(Call{Node: nd.Name, Name: name, Hash: hash, Amount: amountMsat, FeeLimit: maxFee, Answer: string(ans)})
	auto := nd.AutoNotify
	nd.Net.mu.Unlock()
	if notifyHash != "" && auto {
		nd.Net.Notify(notifyHash)
	}
	if nd.LateAnswers {
		nd.point(name + ":answer")
	}
	return res, rerr
}

func (nd *Node) SendPayment(ctx context.Context, request string, maxFee uint64) (lightning.PaymentStatus, error) {
	return nd.pay(ctx, "SendPayment", request, 0, maxFee, false)
}

func (nd *Node) PayPartialAmount(ctx context.Context, request string, amountMsat uint64, maxFee uint64) (lightning.PaymentStatus, error) {
	return nd.pay(ctx, "PayPartialAmount", request, amountMsat, maxFee, true)
}

func (nd *Node) OutgoingPaymentStatus(ctx context.Context, hash string) (lightning.PaymentStatus, error) {
	if err := nd.point("OutgoingPaymentStatus"); err != nil {
		nd.Net.mu.Lock()
		nd.Net.log(Call{Node: nd.Name, Name: "OutgoingPaymentStatus", Hash: hash, Answer: string(StError)})
		nd.Net.mu.Unlock()
		return lightning.PaymentStatus{}, err
	}
	nd.Net.mu.Lock()
	key := nd.Name + "/" + hash
	p := nd.Net.Payments[key]
	truth := TNone
	if p != nil {
		truth = p.Truth
	}
	ans := nd.nextStatus(hash, truth)
	preimage := ""
	if inv, ok := nd.Net.Invoices[hash]; ok {
		preimage = inv.Preimage
	}
	var res lightning.PaymentStatus
	var rerr error
	var notifyHash string
	switch ans {
	case StNotFound:
		if p != nil && p.Truth != TSucceeded {
			p.Truth = TNone
		}
		rerr = lightning.OutgoingPaymentNotFound
	case StError:
		rerr = errors.New("verif: injected lightning error: backend unavailable (rpc 10.0.7.12:10009)")
	case StFailed:
		if p != nil && p.Truth != TSucceeded {
			p.Truth = TFailed
		}
		res = lightning.PaymentStatus{PaymentStatus: lightning.Failed, PaymentFailureReason: "no route"}
	case StPending:
		if p != nil && (p.Truth == TNone || p.Truth == TFailed) {
			p.Truth = TInflight
		}
		res = lightning.PaymentStatus{PaymentStatus: lightning.Pending}
	case StSucceeded:
		if p != nil {
			wasSettled := false
			if inv, ok := nd.Net.Invoices[hash]; ok {
				wasSettled = inv.Settled
			}
			nd.Net.succeed(p)
			if inv, ok := nd.Net.Invoices[hash]; ok && inv.Settled && !wasSettled && inv.Owner != "" {
				notifyHash = hash
			}
		}
		res = lightning.PaymentStatus{Preimage: preimage, PaymentStatus: lightning.Succeeded}
	}
	nd.Net.log(Call{Node: nd.Name, Name: "OutgoingPaymentStatus", Hash: hash, Answer: string(ans)})
	auto := nd.AutoNotify
	nd.Net.mu.Unlock()
	if notifyHash != "" && auto {
		nd.Net.Notify(notifyHash)
	}
	if nd.LateAnswers {
		nd.point("OutgoingPaymentStatus:answer")
	}
	return res, rerr
}

func (nd *Node) FeeReserve(amount uint64) uint64 {
	switch nd.FeeReservePolicy {
	case "zero":
		return 0
	case "flat2":
		return 2
	case "min1":
		f := uint64(math.Ceil(float64(amount) * 0.01))
		if f < 1 {
			f = 1
		}
		return f
	}
	return uint64(math.Ceil(float64(amount) * 0.01))
}

type sub struct {
	ctx context.Context
	ch  chan lightning.Invoice
}

func (s *sub) Recv() (lightning.Invoice, error) {
	select {
	case inv := <-s.ch:
		return inv, nil
	case <-s.ctx.Done():
		return lightning.Invoice{}, s.ctx.Err()
	}
}

func (nd *Node) SubscribeInvoice(ctx context.Context, paymentHash string) (lightning.InvoiceSubscriptionClient, error) {
	nd.Net.mu.Lock()
	defer nd.Net.mu.Unlock()
	ch := make(chan lightning.Invoice, 1)
	nd.Net.subs[paymentHash] = append(nd.Net.subs[paymentHash], ch)
	return &sub{ctx: ctx, ch: ch}, nil
}

var _ lightning.Client = (*Node)(nil)
