// Package sched controls the real atomicity grain of the mint and wallet: one storage call
// or one Lightning call. It is the scheduler for interleaving replay, the crash injector
// (a goroutine frozen at a call boundary for good) and the storage/LN error injector.
package sched

import (
	"bytes"
	"errors"
	"runtime"
	"strconv"
	"sync"
	"time"
)

// Gid returns the current goroutine's id.
func Gid() int64 { return gid() }

func gid() int64 {
	var buf [64]byte
	n := runtime.Stack(buf[:], false)
	b := buf[:n]
	b = bytes.TrimPrefix(b, []byte("goroutine "))
	i := bytes.IndexByte(b, ' ')
	id, _ := strconv.ParseInt(string(b[:i]), 10, 64)
	return id
}

// Alive reports whether goroutine id still exists.
func Alive(id int64) bool {
	buf := make([]byte, 1<<20)
	n := runtime.Stack(buf, true)
	needle := []byte("goroutine " + strconv.FormatInt(id, 10) + " [")
	return bytes.Contains(buf[:n], needle)
}

// WaitState returns the bracketed wait state of goroutine id ("" if it no longer exists).
var stackBufs = sync.Pool{New: func() any { b := make([]byte, 4<<20); return &b }}

func WaitState(id int64) string {
	bp := stackBufs.Get().(*[]byte)
	defer stackBufs.Put(bp)
	buf := *bp
	n := runtime.Stack(buf, true)
	// many worlds run in one process: the dump of all goroutines must not be cut short
	for n == len(buf) && len(buf) < 256<<20 {
		buf = make([]byte, 2*len(buf))
		*bp = buf
		n = runtime.Stack(buf, true)
	}
	needle := []byte("goroutine " + strconv.FormatInt(id, 10) + " [")
	i := bytes.Index(buf[:n], needle)
	if i < 0 {
		return ""
	}
	rest := buf[i+len(needle) : n]
	j := bytes.IndexByte(rest, ']')
	if j < 0 {
		return "?"
	}
	return string(rest[:j])
}

func lockWait(state string) bool {
	return len(state) >= 5 && (state[:5] == "sync." || state[:5] == "semac")
}

var ErrInjected = errors.New("verif: injected storage error")

type Proc struct {
	Name    string
	Gid     int64
	Bg      bool
	Calls   []string // labels of the calls this proc has arrived at, in order
	arrived chan string
	grant   chan error
	done    chan struct{}
	Pending string // label of the call the proc is blocked at ("" if running / done)
	Done    bool
	Frozen  bool
	CrashAt int // freeze when arriving at call index CrashAt (0-based), -1 = never
	ErrAt   int // inject an error at call index ErrAt, -1 = never
	Gated   bool
}

type Controller struct {
	mu     sync.Mutex
	byGid  map[int64]*Proc
	Procs  map[string]*Proc
	GateBg bool // adopt unregistered (background) goroutines as gated procs at their storage calls
	bgN    int
	BgLog  []string
	// FrozenCh is signalled when a proc was frozen by crash injection.
	FrozenCh chan string
	// BgArrived is signalled when a background goroutine is adopted (arrived at its first gated call).
	BgArrived chan *Proc
	Dead      bool // after a crash: every call from any goroutine freezes
}

func New() *Controller {
	return &Controller{byGid: map[int64]*Proc{}, Procs: map[string]*Proc{}, FrozenCh: make(chan string, 16),
		BgArrived: make(chan *Proc, 64)}
}

// Kill freezes every goroutine that subsequently reaches a call boundary (process death).
func (c *Controller) Kill() {
	c.mu.Lock()
	c.Dead = true
	c.mu.Unlock()
}

var bgGated = map[string]bool{"UpdateMintQuoteState": true, "GetMintQuote": true}

func newProc(name string, crashAt, errAt int, gated bool) *Proc {
	return &Proc{Name: name, CrashAt: crashAt, ErrAt: errAt, Gated: gated,
		arrived: make(chan string, 1), grant: make(chan error, 1), done: make(chan struct{})}
}

// Point implements the hook consulted before each storage/LN call.
func (c *Controller) Point(kind, name string) error {
	g := gid()
	c.mu.Lock()
	if c.Dead {
		c.mu.Unlock()
		select {}
	}
	p := c.byGid[g]
	adopted := false
	if p == nil {
		if c.GateBg && kind == "db" && bgGated[name] {
			c.bgN++
			p = newProc("bg"+strconv.Itoa(c.bgN), -1, -1, true)
			p.Gid, p.Bg = g, true
			c.byGid[g] = p
			c.Procs[p.Name] = p
			adopted = true
		} else {
			c.BgLog = append(c.BgLog, kind+":"+name)
			c.mu.Unlock()
			return nil
		}
	}
	idx := len(p.Calls)
	label := kind + ":" + name
	p.Calls = append(p.Calls, label)
	if p.CrashAt >= 0 && idx == p.CrashAt {
		p.Frozen = true
		p.Pending = label
		c.mu.Unlock()
		c.FrozenCh <- p.Name
		select {} // frozen for good: no unwinding, no deferred clean-up
	}
	if p.ErrAt >= 0 && idx == p.ErrAt {
		c.mu.Unlock()
		return ErrInjected
	}
	if !p.Gated {
		c.mu.Unlock()
		return nil
	}
	p.Pending = label
	c.mu.Unlock()
	if adopted {
		c.BgArrived <- p
	}
	p.arrived <- label
	err := <-p.grant
	c.mu.Lock()
	p.Pending = ""
	c.mu.Unlock()
	return err
}

// Spawn runs fn in a new goroutine registered as proc name.
func (c *Controller) Spawn(name string, gated bool, crashAt, errAt int, fn func()) *Proc {
	p := newProc(name, crashAt, errAt, gated)
	c.mu.Lock()
	c.Procs[name] = p
	c.mu.Unlock()
	ready := make(chan struct{})
	go func() {
		g := gid()
		c.mu.Lock()
		p.Gid = g
		c.byGid[g] = p
		c.mu.Unlock()
		close(ready)
		fn()
		c.mu.Lock()
		p.Done = true
		delete(c.byGid, g)
		c.mu.Unlock()
		close(p.done)
	}()
	<-ready
	return p
}

// Await waits until proc p is blocked at a call boundary or finished.
// Returns the pending label ("" when done).
func (c *Controller) Await(p *Proc, timeout time.Duration) (label string, done bool, err error) {
	l, d, _, e := c.AwaitL(p, timeout)
	return l, d, e
}

// StillLocked: a proc that was found waiting for a lock is still waiting for it (one look, no waiting).
func (c *Controller) StillLocked(p *Proc) bool {
	select {
	case <-p.done:
		return false
	default:
	}
	if len(p.arrived) > 0 {
		return false
	}
	return lockWait(WaitState(p.Gid))
}

// AwaitL is Await that also recognises a proc waiting for a lock held by another proc
// (which is itself waiting at a call boundary): locked = true, the proc is neither enabled
// nor done and must be awaited again after other procs have moved.
func (c *Controller) AwaitL(p *Proc, timeout time.Duration) (label string, done bool, locked bool, err error) {
	deadline := time.Now().Add(timeout)
	lockSeen := 0
	// dumping all goroutines stops the world: poll rarely once the proc is clearly not about to arrive
	poll := 400 * time.Microsecond
	for {
		t := time.NewTimer(poll)
		if poll < 8*time.Millisecond {
			poll += poll / 2
		}
		select {
		case l := <-p.arrived:
			t.Stop()
			return l, false, false, nil
		case <-p.done:
			t.Stop()
			return "", true, false, nil
		case <-t.C:
		}
		st := WaitState(p.Gid)
		if st == "" && p.Bg {
			// a background goroutine that returned: check once more for a late arrival
			select {
			case l := <-p.arrived:
				return l, false, false, nil
			default:
			}
			c.mu.Lock()
			p.Done = true
			delete(c.byGid, p.Gid)
			c.mu.Unlock()
			return "", true, false, nil
		}
		if lockWait(st) {
			lockSeen++
			if lockSeen >= 4 {
				return "", false, true, nil
			}
		} else {
			lockSeen = 0
		}
		if time.Now().After(deadline) {
			return "", false, false, errors.New("sched: timeout waiting for proc " + p.Name + " (state " + st + ")")
		}
	}
}

// Grant lets the blocked proc perform its pending call (or fail it with err).
func (c *Controller) Grant(p *Proc, err error) {
	p.grant <- err
}

// RunToEnd runs an ungated proc to completion, or until it is frozen.
func (c *Controller) RunToEnd(p *Proc, timeout time.Duration) (frozen bool, err error) {
	t := time.NewTimer(timeout)
	defer t.Stop()
	for {
		select {
		case <-p.done:
			return false, nil
		case name := <-c.FrozenCh:
			if name == p.Name {
				return true, nil
			}
		case <-t.C:
			return false, errors.New("sched: timeout running proc " + p.Name)
		}
	}
}

func (c *Controller) CallsOf(p *Proc) []string {
	c.mu.Lock()
	defer c.mu.Unlock()
	out := make([]string, len(p.Calls))
	copy(out, p.Calls)
	return out
}
