package main

import (
	"encoding/json"
	"flag"
	"fmt"
	"os"
	"path/filepath"
	"sync"

	"github.com/elnosh/gonuts/mint"

	"verif/harness/world"
)

// History is one sequential history to replay on a fresh mint.
type History struct {
	ID     int            `json:"id"`
	Fee    uint           `json:"fee"`
	MPP    bool           `json:"mpp"`
	Policy string         `json:"policy"`
	Limits map[string]any `json:"limits"`
	Probe  string         `json:"probe"` // "", "none", "passive", "all": queries issued after every step
	// Malformed: after every state-changing step, send this many structurally mutated requests
	// (seeded sample of the grammar) through the HTTP handler
	Malformed int `json:"malformed"`
	// HTTP: run every operation through the HTTP handler with hand-built JSON (C20)
	HTTP bool       `json:"http"`
	Ops  []world.Op `json:"ops"`
}

func init() { commands["hist"] = cmdHist }

func limitsOf(m map[string]any) mint.MintLimits {
	var l mint.MintLimits
	get := func(k string) uint64 {
		switch v := m[k].(type) {
		case float64:
			return uint64(v)
		case string:
			var x uint64
			fmt.Sscan(v, &x)
			return x
		}
		return 0
	}
	l.MaxBalance = get("maxbal")
	l.MintingSettings.MaxAmount = get("maxmint")
	l.MeltingSettings.MaxAmount = get("maxmelt")
	return l
}

// runHistory replays one history; returns its events.
func runHistory(h History, scratch string, seed int64) ([]world.Event, error) {
	dir := filepath.Join(scratch, fmt.Sprintf("h%d", h.ID))
	os.RemoveAll(dir)
	defer os.RemoveAll(dir)
	w, err := world.New(world.Options{Dir: dir, FeePpk: h.Fee, MPP: h.MPP, FeeReserve: h.Policy,
		Limits: limitsOf(h.Limits), Seed: seed + int64(h.ID), WithServer: h.Malformed > 0 || h.HTTP})
	if err != nil {
		return nil, err
	}
	defer w.Close()
	w.Tr = h.ID
	w.ViaHTTP = h.HTTP
	w.EmitInit(map[string]any{"fee": int(h.Fee), "mpp": h.MPP, "policy": h.Policy, "limits": world.LimitFacts(limitsOf(h.Limits))})
	for _, op := range h.Ops {
		w.Exec(op)
		switch op.Op {
		case "checkstate", "restore", "balances", "keysets":
			continue
		}
		probe(w, h.Probe)
		if h.Malformed > 0 {
			w.Exec(world.Op{Op: "malformed", Amt: uint64(h.Malformed)})
		}
		if h.HTTP && (op.Op == "swap" || op.Op == "mint") {
			// NUT-19: replays and near-replays of the request just made
			last := w.Events[len(w.Events)-1]
			for _, e := range w.Events[max(0, len(w.Events)-8):] {
				if e.Ev == op.Op {
					last = e
				}
			}
			if ok, _ := last.R["ok"].(bool); ok {
				for _, v := range []string{"identical", "onebyte", "otherpath", "trailing", "identical", "identical-old"} {
					w.Exec(world.Op{Op: "replay", Kind: v})
				}
			} else {
				w.Exec(world.Op{Op: "replay", Kind: "failed"})
			}
		}
		if h.HTTP && (op.Op == "rotate" || op.Op == "restart") {
			w.Exec(world.Op{Op: "keyshape"})
		}
	}
	return w.Events, nil
}

func cmdHist(args []string) int {
	fs := flag.NewFlagSet("hist", flag.ExitOnError)
	in := fs.String("in", "", "histories json (array)")
	out := fs.String("out", "", "trace ndjson")
	scratch := fs.String("scratch", "/verif/out/tmp", "scratch dir")
	seed := fs.Int64("seed", 1, "seed")
	workers := fs.Int("workers", 8, "parallel mints")
	fs.Parse(args)
	data, err := os.ReadFile(*in)
	if err != nil {
		fmt.Fprintln(os.Stderr, err)
		return 2
	}
	var hs []History
	if err := json.Unmarshal(data, &hs); err != nil {
		fmt.Fprintln(os.Stderr, "bad histories:", err)
		return 2
	}
	os.MkdirAll(*scratch, 0o755)
	os.Remove(*out)
	results := make([][]world.Event, len(hs))
	errs := make([]error, len(hs))
	var wg sync.WaitGroup
	sem := make(chan struct{}, *workers)
	for i := range hs {
		wg.Add(1)
		sem <- struct{}{}
		go func(i int) {
			defer wg.Done()
			defer func() { <-sem }()
			results[i], errs[i] = runHistory(hs[i], *scratch, *seed)
		}(i)
	}
	wg.Wait()
	n := 0
	for i := range hs {
		if errs[i] != nil {
			fmt.Fprintf(os.Stderr, "history %d: driver error: %v\n", hs[i].ID, errs[i])
			return 2
		}
		if err := world.WriteTrace(*out, results[i]); err != nil {
			fmt.Fprintln(os.Stderr, err)
			return 2
		}
		n += len(results[i])
	}
	fmt.Printf("histories=%d events=%d\n", len(hs), n)
	return 0
}

// probe issues the public queries as operations of the history: after every step their replies
// must equal the specification's state (C15, C16, C09).
func probe(w *world.World, level string) {
	if level == "" || level == "none" {
		return
	}
	outs := w.Reg.OutOrder
	if len(outs) > 16 {
		outs = outs[len(outs)-16:]
	}
	if level == "all" {
		ys := append([]string{}, outs...)
		if len(outs) > 0 {
			ys = append(ys, "unknown", outs[0], "malformed")
		} else {
			ys = append(ys, "unknown")
		}
		w.Exec(world.Op{Op: "checkstate", Ys: ys})
	}
	bs := append([]string{"unknown"}, outs...)
	if len(outs) > 1 {
		bs = append(bs, outs[1], "malformed")
	}
	w.Exec(world.Op{Op: "restore", Bs: bs})
	w.Exec(world.Op{Op: "balances"})
	w.Exec(world.Op{Op: "keysets"})
}
