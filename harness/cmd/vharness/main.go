// vharness: drivers that elicit behaviour from the real gonuts code and record traces for TLC.
package main

import (
	"fmt"
	"os"
)

var commands = map[string]func(args []string) int{}

func main() {
	if len(os.Args) < 2 {
		fmt.Fprintln(os.Stderr, "usage: vharness <command> [flags]")
		os.Exit(2)
	}
	cmd, ok := commands[os.Args[1]]
	if !ok {
		fmt.Fprintln(os.Stderr, "unknown command", os.Args[1])
		os.Exit(2)
	}
	os.Exit(cmd(os.Args[2:]))
}
