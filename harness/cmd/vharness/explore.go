package main

import (
	"encoding/json"
	"flag"
	"fmt"
	"os"
	"path/filepath"
	"sync"

	"verif/harness/explore"
	"verif/harness/world"
)

func init() { commands["explore"] = cmdExplore }

// makeTemplate creates a migrated, empty mint database with the given fee.
func makeTemplate(scratch string, fee uint) (string, error) {
	dir := filepath.Join(scratch, fmt.Sprintf("tmpl-fee%d", fee))
	if _, err := os.Stat(filepath.Join(dir, "mint.sqlite.db")); err == nil {
		return dir, nil
	}
	w, err := world.New(world.Options{Dir: dir, FeePpk: fee})
	if err != nil {
		return "", err
	}
	w.Close()
	return dir, nil
}

func cmdExplore(args []string) int {
	fs := flag.NewFlagSet("explore", flag.ExitOnError)
	in := fs.String("in", "", "scenarios json (array)")
	outDir := fs.String("out", "", "output directory (trace shards, index)")
	scratch := fs.String("scratch", "/dev/shm/verif-explore", "scratch dir")
	seed := fs.Int64("seed", 1, "seed")
	workers := fs.Int("workers", 12, "parallel executions")
	maxExec := fs.Int("max", 4000, "max executions per scenario")
	shard := fs.Int("shard", 600, "executions per trace shard")
	fs.Parse(args)
	data, err := os.ReadFile(*in)
	if err != nil {
		fmt.Fprintln(os.Stderr, err)
		return 2
	}
	var scns []explore.Scenario
	if err := json.Unmarshal(data, &scns); err != nil {
		fmt.Fprintln(os.Stderr, "bad scenarios:", err)
		return 2
	}
	os.MkdirAll(*scratch, 0o755)
	defer os.RemoveAll(*scratch)
	os.MkdirAll(*outDir, 0o755)
	var nextTr int64
	var mu sync.Mutex
	type idx struct {
		Tr       int      `json:"tr"`
		Scenario string   `json:"scenario"`
		Prop     string   `json:"prop"`
		Schedule []string `json:"schedule"`
		Shard    int      `json:"shard"`
	}
	var index []idx
	shardN, inShard := 0, 0
	var cur []world.Event
	flush := func() {
		if len(cur) == 0 {
			return
		}
		world.WriteTrace(filepath.Join(*outDir, fmt.Sprintf("shard%03d.ndjson", shardN)), cur)
		cur = nil
		shardN++
		inShard = 0
	}
	summary := []map[string]any{}
	for _, scn := range scns {
		tmpl, err := makeTemplate(*scratch, scn.Fee)
		if err != nil {
			fmt.Fprintln(os.Stderr, "template:", err)
			return 2
		}
		emit := func(tr int, evs []world.Event, schedule []string) {
			mu.Lock()
			defer mu.Unlock()
			cur = append(cur, evs...)
			index = append(index, idx{Tr: tr, Scenario: scn.Name, Prop: scn.Prop, Schedule: schedule, Shard: shardN})
			inShard++
			if inShard >= *shard {
				flush()
			}
		}
		st, err := explore.Explore(scn, tmpl, *scratch, *seed, *workers, *maxExec, &nextTr, emit)
		if err != nil {
			fmt.Fprintln(os.Stderr, "explore:", err)
			return 2
		}
		summary = append(summary, map[string]any{"scenario": scn.Name, "prop": scn.Prop, "executions": st.Executions,
			"sleep_blocked": st.Blocked, "complete": st.Complete, "max_steps": st.MaxSteps})
		fmt.Printf("scenario=%s executions=%d blocked=%d complete=%v maxsteps=%d\n", scn.Name, st.Executions, st.Blocked, st.Complete, st.MaxSteps)
	}
	mu.Lock()
	flush()
	mu.Unlock()
	b, _ := json.Marshal(map[string]any{"index": index, "summary": summary, "shards": shardN})
	os.WriteFile(filepath.Join(*outDir, "index.json"), b, 0o644)
	return 0
}
