package main

import (
	"encoding/json"
	"flag"
	"fmt"
	"os"
	"path/filepath"
	"sync"

	"verif/harness/wworld"
)

// WHistory: a history over wallets and mints.
type WHistory struct {
	ID    int `json:"id"`
	Mints []struct {
		Name   string `json:"name"`
		Fee    uint   `json:"fee"`
		Policy string `json:"policy"`
	} `json:"mints"`
	Wallets []struct {
		Name    string   `json:"name"`
		Default string   `json:"default"`
		Trust   []string `json:"trust"` // other mints in the wallet's list; absent: all
	} `json:"wallets"`
	Ops []wworld.Op `json:"ops"`
}

func init() { commands["whist"] = cmdWHist }

func runWHistory(h WHistory, scratch string, seed int64) ([]wworld.Event, []map[string]any, error) {
	dir := filepath.Join(scratch, fmt.Sprintf("wh%d", h.ID))
	os.RemoveAll(dir)
	ww := wworld.New(h.ID, dir, seed+int64(h.ID))
	if len(h.Ops) > 25 {
		// long histories use many counters per keyset
		ww.DeriveUpTo = 700
	}
	defer ww.Close()
	for _, m := range h.Mints {
		if err := ww.AddMint(m.Name, m.Fee, m.Policy); err != nil {
			return nil, nil, err
		}
	}
	for _, w := range h.Wallets {
		if err := ww.AddWallet(w.Name, w.Default, w.Trust); err != nil {
			return nil, nil, err
		}
	}
	ww.EmitInit()
	for _, op := range h.Ops {
		ww.Exec(op)
	}
	return ww.Events, ww.DleqLog, nil
}

func cmdWHist(args []string) int {
	fs := flag.NewFlagSet("whist", flag.ExitOnError)
	in := fs.String("in", "", "wallet histories json (array)")
	out := fs.String("out", "", "trace ndjson")
	scratch := fs.String("scratch", "/dev/shm/verif-whist", "scratch dir")
	seed := fs.Int64("seed", 1, "seed")
	workers := fs.Int("workers", 8, "parallel histories")
	dleq := fs.String("dleq", "", "optional: ndjson log of the NUT-12 facts of tokens handed out and proofs stored")
	fs.Parse(args)
	data, err := os.ReadFile(*in)
	if err != nil {
		fmt.Fprintln(os.Stderr, err)
		return 2
	}
	var hs []WHistory
	if err := json.Unmarshal(data, &hs); err != nil {
		fmt.Fprintln(os.Stderr, "bad histories:", err)
		return 2
	}
	os.MkdirAll(*scratch, 0o755)
	defer os.RemoveAll(*scratch)
	os.Remove(*out)
	results := make([][]wworld.Event, len(hs))
	dleqs := make([][]map[string]any, len(hs))
	errs := make([]error, len(hs))
	var wg sync.WaitGroup
	sem := make(chan struct{}, *workers)
	for i := range hs {
		wg.Add(1)
		sem <- struct{}{}
		go func(i int) {
			defer wg.Done()
			defer func() { <-sem }()
			results[i], dleqs[i], errs[i] = runWHistory(hs[i], *scratch, *seed)
		}(i)
	}
	wg.Wait()
	n := 0
	for i := range hs {
		if errs[i] != nil {
			fmt.Fprintf(os.Stderr, "history %d: driver error: %v\n", hs[i].ID, errs[i])
			return 2
		}
		if err := wworld.WriteTrace(*out, results[i]); err != nil {
			fmt.Fprintln(os.Stderr, err)
			return 2
		}
		n += len(results[i])
	}
	if *dleq != "" {
		f, err := os.Create(*dleq)
		if err != nil {
			fmt.Fprintln(os.Stderr, err)
			return 2
		}
		enc := json.NewEncoder(f)
		for i := range hs {
			for _, l := range dleqs[i] {
				enc.Encode(l)
			}
		}
		f.Close()
	}
	fmt.Printf("histories=%d events=%d\n", len(hs), n)
	return 0
}
