package main

import (
	"bufio"
	"crypto/sha256"
	"encoding/hex"
	"encoding/json"
	"flag"
	"fmt"
	"os"
	"path/filepath"
	"sync"

	"github.com/decred/dcrd/dcrec/secp256k1/v4"
	"github.com/elnosh/gonuts/cashu"
	"github.com/elnosh/gonuts/cashu/nuts/nut04"
	"github.com/elnosh/gonuts/crypto"

	"verif/harness/wworld"
)

// sendcases replays the cases of SendCases.tla: a wallet whose content is injected as genuine
// proofs (minted directly at the mint, with DLEQ, on the active and on an inactive keyset),
// one Send, and a recipient that redeems.

func init() { commands["sendcases"] = cmdSendCases }

type sendCase struct {
	Act  []int  `json:"act"`
	Old  []int  `json:"old"`
	Amt  uint64 `json:"amt"`
	Fees bool   `json:"fees"`
	Ppk  uint   `json:"ppk"`
}

var denoms = []uint64{1, 2, 4, 8, 16, 32}

// directMint obtains genuine proofs of the given amounts straight from the mint.
func directMint(ww *wworld.WW, mintName string, amounts []uint64, salt string) (cashu.Proofs, error) {
	ms := ww.Mints[mintName]
	var total uint64
	for _, a := range amounts {
		total += a
	}
	if total == 0 {
		return nil, nil
	}
	ks := ms.W.ActiveKeyset()
	q, err := ms.W.Mint.RequestMintQuote(nut04.PostMintQuoteBolt11Request{Amount: total, Unit: "sat"})
	if err != nil {
		return nil, err
	}
	ww.Net.SettleExternally(q.PaymentHash)
	type out struct {
		secret string
		r      *secp256k1.PrivateKey
	}
	outs := make([]out, len(amounts))
	msgs := make(cashu.BlindedMessages, len(amounts))
	for i, a := range amounts {
		h := sha256.Sum256([]byte(fmt.Sprintf("sendcase-%s-%d", salt, i)))
		rb := sha256.Sum256(h[:])
		rb[0] &= 0x7f
		r := secp256k1.PrivKeyFromBytes(rb[:])
		secret := hex.EncodeToString(h[:])
		B_, _, err := crypto.BlindMessage(secret, r)
		if err != nil {
			return nil, err
		}
		outs[i] = out{secret, r}
		msgs[i] = cashu.BlindedMessage{Amount: a, B_: hex.EncodeToString(B_.SerializeCompressed()), Id: ks.Real}
	}
	sigs, err := ms.W.Mint.MintTokens(nut04.PostMintBolt11Request{Quote: q.Id, Outputs: msgs})
	if err != nil {
		return nil, err
	}
	ww.MintedIn[mintName] += total
	proofs := make(cashu.Proofs, len(sigs))
	for i, s := range sigs {
		cb, _ := hex.DecodeString(s.C_)
		C_, _ := secp256k1.ParsePubKey(cb)
		C := crypto.UnblindSignature(C_, outs[i].r, ks.Keys[s.Amount])
		p := cashu.Proof{Amount: s.Amount, Id: s.Id, Secret: outs[i].secret, C: hex.EncodeToString(C.SerializeCompressed())}
		if s.DLEQ != nil {
			p.DLEQ = &cashu.DLEQProof{E: s.DLEQ.E, S: s.DLEQ.S, R: hex.EncodeToString(outs[i].r.Serialize())}
		}
		proofs[i] = p
	}
	return proofs, nil
}

func amountsOf(content []int) []uint64 {
	var out []uint64
	for i, n := range content {
		for k := 0; k < n; k++ {
			out = append(out, denoms[i])
		}
	}
	return out
}

func runSendGroup(id int, ppk uint, cases []sendCase, scratch string, seed int64) ([]wworld.Event, error) {
	dir := filepath.Join(scratch, fmt.Sprintf("sg%d", id))
	os.RemoveAll(dir)
	ww := wworld.New(id, dir, seed)
	ww.DeriveUpTo = 40
	defer ww.Close()
	if err := ww.AddMint("ma", ppk, "min1"); err != nil {
		return nil, err
	}
	// pool of proofs on the keyset that will be inactive
	var oldAmts []uint64
	for _, c := range cases {
		oldAmts = append(oldAmts, amountsOf(c.Old)...)
	}
	pool := map[uint64]cashu.Proofs{}
	for lo := 0; lo < len(oldAmts); lo += 200 {
		hi := lo + 200
		if hi > len(oldAmts) {
			hi = len(oldAmts)
		}
		ps, err := directMint(ww, "ma", oldAmts[lo:hi], fmt.Sprintf("old-%d-%d", id, lo))
		if err != nil {
			return nil, err
		}
		for _, p := range ps {
			pool[p.Amount] = append(pool[p.Amount], p)
		}
	}
	ww.Exec(wworld.Op{Op: "rotate", M: "ma", Fee: ppk})
	ww.Events = nil
	// value parked in the pool is accounted as retired until it is handed to a wallet
	for _, ps := range pool {
		for _, p := range ps {
			ww.Retired["ma"] += p.Amount
		}
	}
	ww.EmitInit()
	for k, c := range cases {
		s, r := fmt.Sprintf("s%d", k), fmt.Sprintf("r%d", k)
		if err := ww.AddWallet(s, "ma", nil); err != nil {
			return nil, err
		}
		if err := ww.AddWallet(r, "ma", nil); err != nil {
			return nil, err
		}
		proofs, err := directMint(ww, "ma", amountsOf(c.Act), fmt.Sprintf("act-%d-%d", id, k))
		if err != nil {
			return nil, err
		}
		for _, a := range amountsOf(c.Old) {
			p := pool[a][0]
			pool[a] = pool[a][1:]
			ww.Retired["ma"] -= p.Amount
			proofs = append(proofs, p)
		}
		if err := ww.Wallets[s].Raw.SaveProofs(proofs); err != nil {
			return nil, err
		}
		ww.Emit("inject", map[string]any{"w": s, "act": c.Act, "old": c.Old})
		ev := ww.Exec(wworld.Op{Op: "send", W: s, M: "ma", Amt: c.Amt, Fees: c.Fees})
		if tok, _ := ev.R["tok"].(string); tok != "" {
			ww.Exec(wworld.Op{Op: "receive", W: r, Tok: tok})
		}
		ww.Retire(s)
		ww.Retire(r)
		// tokens of retired wallets are gone with them
		for id, t := range ww.Tokens {
			if !t.Taken {
				for _, p := range t.Proofs {
					_ = p
				}
			}
			delete(ww.Tokens, id)
		}
		ww.Emit("retire", map[string]any{"w": s})
	}
	return ww.Events, nil
}

func cmdSendCases(args []string) int {
	fs := flag.NewFlagSet("sendcases", flag.ExitOnError)
	in := fs.String("in", "", "cases ndjson (from SendCases.tla)")
	out := fs.String("out", "", "trace ndjson")
	scratch := fs.String("scratch", "/dev/shm/verif-sendcases", "scratch dir")
	seed := fs.Int64("seed", 1, "seed")
	workers := fs.Int("workers", 12, "parallel groups")
	group := fs.Int("group", 120, "cases per group")
	fs.Parse(args)
	f, err := os.Open(*in)
	if err != nil {
		fmt.Fprintln(os.Stderr, err)
		return 2
	}
	byPpk := map[uint][]sendCase{}
	sc := bufio.NewScanner(f)
	n := 0
	for sc.Scan() {
		var c sendCase
		if err := json.Unmarshal(sc.Bytes(), &c); err != nil {
			fmt.Fprintln(os.Stderr, "bad case:", err)
			return 2
		}
		byPpk[c.Ppk] = append(byPpk[c.Ppk], c)
		n++
	}
	f.Close()
	type grp struct {
		id    int
		ppk   uint
		cases []sendCase
	}
	var groups []grp
	for ppk, cs := range byPpk {
		for lo := 0; lo < len(cs); lo += *group {
			hi := lo + *group
			if hi > len(cs) {
				hi = len(cs)
			}
			groups = append(groups, grp{len(groups) + 1, ppk, cs[lo:hi]})
		}
	}
	os.MkdirAll(*scratch, 0o755)
	defer os.RemoveAll(*scratch)
	os.Remove(*out)
	results := make([][]wworld.Event, len(groups))
	errs := make([]error, len(groups))
	var wg sync.WaitGroup
	sem := make(chan struct{}, *workers)
	for i := range groups {
		wg.Add(1)
		sem <- struct{}{}
		go func(i int) {
			defer wg.Done()
			defer func() { <-sem }()
			results[i], errs[i] = runSendGroup(groups[i].id, groups[i].ppk, groups[i].cases, *scratch, *seed)
		}(i)
	}
	wg.Wait()
	ev := 0
	for i := range groups {
		if errs[i] != nil {
			fmt.Fprintf(os.Stderr, "group %d: driver error: %v\n", groups[i].id, errs[i])
			return 2
		}
		if err := wworld.WriteTrace(*out, results[i]); err != nil {
			fmt.Fprintln(os.Stderr, err)
			return 2
		}
		ev += len(results[i])
	}
	fmt.Printf("histories=%d events=%d cases=%d\n", len(groups), ev, n)
	return 0
}
