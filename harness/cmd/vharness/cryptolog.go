package main

import (
	"bufio"
	"crypto/sha256"
	"encoding/hex"
	"encoding/json"
	"flag"
	"fmt"
	"math/rand"
	"os"
	"path/filepath"
	"sort"
	"strings"

	"github.com/btcsuite/btcd/btcutil/hdkeychain"
	"github.com/btcsuite/btcd/chaincfg"
	"github.com/decred/dcrd/dcrec/secp256k1/v4"
	"github.com/elnosh/gonuts/cashu"
	"github.com/elnosh/gonuts/cashu/nuts/nut04"
	"github.com/elnosh/gonuts/cashu/nuts/nut12"
	"github.com/elnosh/gonuts/cashu/nuts/nut13"
	"github.com/elnosh/gonuts/crypto"
	"github.com/elnosh/gonuts/mint/storage/sqlite"

	"verif/harness/world"
)

// cryptolog samples inputs (edge classes + seeded random), calls the exported functions of
// crypto/, nut12 and nut13 and logs (inputs, actual output). It decides nothing: TLC recomputes
// every line with Derive.tla / Bdhke.tla over ECPrim and compares.

func init() { commands["cryptolog"] = cmdCryptoLog }

var nHex = "fffffffffffffffffffffffffffffffebaaedce6af48a03bbfd25e8cd0364141"

func scalarEdge(rnd *rand.Rand, i int) string {
	switch i % 6 {
	case 0:
		return strings.Repeat("0", 63) + "1"
	case 1:
		return strings.Repeat("0", 63) + "2"
	case 2:
		return "fffffffffffffffffffffffffffffffebaaedce6af48a03bbfd25e8cd0364140" // n-1
	case 3:
		return "fffffffffffffffffffffffffffffffebaaedce6af48a03bbfd25e8cd036413f" // n-2
	}
	b := make([]byte, 32)
	rnd.Read(b)
	b[0] &= 0x7f
	return hex.EncodeToString(b)
}

func priv(h string) *secp256k1.PrivateKey {
	b, _ := hex.DecodeString(h)
	return secp256k1.PrivKeyFromBytes(b)
}

func ptHex(p *secp256k1.PublicKey) string { return hex.EncodeToString(p.SerializeCompressed()) }

func parsePt(h string) *secp256k1.PublicKey {
	b, _ := hex.DecodeString(h)
	p, err := secp256k1.ParsePubKey(b)
	if err != nil {
		panic(err)
	}
	return p
}

func secretsFor(rnd *rand.Rand, n int) []string {
	out := []string{"", "a", "test_message", strings.Repeat("0", 64),
		`["P2PK",{"nonce":"da62796403af76c80cd6ce9153ed3746","data":"033281c37677ea273eb7183b783067f5244933ef78d8c3f15b1a77cb246099c26e","tags":[["sigflag","SIG_ALL"]]}]`,
		strings.Repeat("x", 512), "ünïcödé ✓ \"quotes\" \\ backslash", "\x00\x01binary\xff"}
	for len(out) < n {
		b := make([]byte, 1+rnd.Intn(40))
		rnd.Read(b)
		out = append(out, hex.EncodeToString(b))
	}
	return out[:n]
}

func hx(s string) string { return hex.EncodeToString([]byte(s)) }

func boolStr(b bool) string {
	if b {
		return "true"
	}
	return "false"
}

func cmdCryptoLog(args []string) int {
	fs := flag.NewFlagSet("cryptolog", flag.ExitOnError)
	outp := fs.String("out", "", "log ndjson")
	which := fs.String("which", "derive", "derive | bdhke")
	n := fs.Int("n", 200, "size parameter")
	seed := fs.Int64("seed", 1, "seed")
	scratch := fs.String("scratch", "/dev/shm/verif-crypto", "scratch dir")
	fs.Parse(args)
	rnd := rand.New(rand.NewSource(*seed))
	of, err := os.Create(*outp)
	if err != nil {
		fmt.Fprintln(os.Stderr, err)
		return 2
	}
	defer of.Close()
	bw := bufio.NewWriter(of)
	defer bw.Flush()
	enc := json.NewEncoder(bw)
	lines := 0
	emit := func(m map[string]any) {
		enc.Encode(m)
		lines++
	}
	os.MkdirAll(*scratch, 0o755)
	defer os.RemoveAll(*scratch)

	if *which == "derive" {
		// ---- hash_to_curve ----
		msgs := [][]byte{{}, {0}, {0xff}, make([]byte, 32), []byte("test_message"), []byte(strings.Repeat("long message ", 100))}
		for len(msgs) < *n {
			b := make([]byte, rnd.Intn(80))
			rnd.Read(b)
			msgs = append(msgs, b)
		}
		// messages that need several counter iterations: found by search with an own SHA-256 loop
		found := 0
		for i := 0; found < 12 && i < 200000; i++ {
			m := []byte(fmt.Sprintf("iter-search-%d-%d", *seed, i))
			h := sha256.Sum256(append([]byte(crypto.DomainSeparator), m...))
			iters := 0
			for c := uint32(0); c < 64; c++ {
				cb := []byte{byte(c), byte(c >> 8), byte(c >> 16), byte(c >> 24)}
				x := sha256.Sum256(append(h[:], cb...))
				if _, err := secp256k1.ParsePubKey(append([]byte{2}, x[:]...)); err == nil {
					iters = int(c) + 1
					break
				}
			}
			if iters >= 4 {
				msgs = append(msgs, m)
				found++
			}
		}
		for _, m := range msgs {
			out := "error"
			if p, err := crypto.HashToCurve(m); err == nil {
				out = ptHex(p)
			}
			emit(map[string]any{"fn": "HashToCurve", "msg": hex.EncodeToString(m), "out": out})
		}
		// ---- keyset id of arbitrary key sets ----
		for i := 0; i < *n/4+8; i++ {
			size := 1 + rnd.Intn(64)
			if i < 3 {
				size = []int{1, 2, 64}[i]
			}
			keys := crypto.PublicKeys{}
			for len(keys) < size {
				var amt uint64
				switch rnd.Intn(3) {
				case 0:
					amt = uint64(1) << uint(rnd.Intn(64))
				case 1:
					amt = uint64(rnd.Intn(1000))
				default:
					amt = rnd.Uint64()
				}
				keys[amt] = priv(scalarEdge(rnd, 5)).PubKey()
			}
			amts := make([]uint64, 0, len(keys))
			for a := range keys {
				amts = append(amts, a)
			}
			sort.Slice(amts, func(i, j int) bool { return amts[i] < amts[j] })
			sorted := make([]string, len(amts))
			for k, a := range amts {
				sorted[k] = ptHex(keys[a])
			}
			emit(map[string]any{"fn": "KeysetId", "keys": sorted, "out": crypto.DeriveKeysetId(keys)})
		}
		// ---- the keysets a real mint publishes: seed + derivation index ----
		w, err := world.New(world.Options{Dir: filepath.Join(*scratch, "m"), FeePpk: 0, Seed: *seed})
		if err != nil {
			fmt.Fprintln(os.Stderr, err)
			return 2
		}
		w.Exec(world.Op{Op: "rotate", Fee: 100})
		w.Exec(world.Op{Op: "restart", Rotate: true, Fee: 1000})
		w.Exec(world.Op{Op: "restart"})
		mseed, _ := w.Raw.GetSeed()
		dbks, _ := w.Raw.GetKeysets()
		for _, k := range dbks {
			emit(map[string]any{"fn": "MintKeysetId", "seed": hex.EncodeToString(mseed), "idx": int(k.DerivationPathIdx), "out": k.Id})
			ks, err := w.Mint.GetKeysetById(k.Id)
			if err != nil {
				fmt.Fprintln(os.Stderr, "keyset not served:", err)
				return 2
			}
			for _, i := range []int{0, 1, 7, 31, 58, 59, rnd.Intn(60)} {
				emit(map[string]any{"fn": "MintPubKey", "seed": hex.EncodeToString(mseed), "idx": int(k.DerivationPathIdx), "i": i,
					"out": ptHex(ks.Keys[uint64(1)<<uint(i)])})
			}
		}
		w.Close()
		// ---- a mint whose stored seed puts a leading-zero key on the keyset path (BIP32 edge class) ----
		for i := 0; i < 40000; i++ {
			cand := sha256.Sum256([]byte(fmt.Sprintf("mint-seed-search-%d-%d", *seed, i)))
			master, err := hdkeychain.NewMaster(cand[:], &chaincfg.MainNetParams)
			if err != nil {
				continue
			}
			kp, err := crypto.DeriveKeysetPath(master, 0)
			if err != nil {
				continue
			}
			pk, err := kp.ECPrivKey()
			if err != nil || pk.Serialize()[0] != 0 {
				continue
			}
			dir := filepath.Join(*scratch, "m-edge")
			os.MkdirAll(dir, 0o700)
			db, err := sqlite.InitSQLite(dir)
			if err != nil {
				break
			}
			db.SaveSeed(cand[:])
			db.Close()
			w2, err := world.New(world.Options{Dir: dir, FeePpk: 0, Seed: *seed})
			if err != nil {
				fmt.Fprintln(os.Stderr, "edge-seed mint:", err)
				return 2
			}
			ms, _ := w2.Raw.GetSeed()
			ks := w2.Mint.GetActiveKeyset()
			emit(map[string]any{"fn": "MintKeysetId", "seed": hex.EncodeToString(ms), "idx": 0, "out": ks.Id, "class": "leading-zero-key-on-path"})
			for b := 0; b < 60; b++ {
				emit(map[string]any{"fn": "MintPubKey", "seed": hex.EncodeToString(ms), "idx": 0, "i": b, "out": ptHex(ks.Keys[uint64(1)<<uint(b)]), "class": "leading-zero-key-on-path"})
			}
			w2.Close()
			break
		}
		// ---- NUT-13, edge class of BIP32: a key on the path that serialises with leading zero bytes ----
		// (inputs found by search; the expected values are computed by TLC as for every other line)
		leading := func(k *hdkeychain.ExtendedKey) bool {
			pk, err := k.ECPrivKey()
			return err == nil && pk.Serialize()[0] == 0
		}
		foundKs, foundCtr, foundMaster := 0, 0, 0
		for i := 0; i < 60000 && (foundKs < 4 || foundCtr < 4 || foundMaster < 2); i++ {
			seedb := sha256.Sum256([]byte(fmt.Sprintf("leading-zero-search-%d-%d", *seed, i)))
			master, err := hdkeychain.NewMaster(seedb[:], &chaincfg.MainNetParams)
			if err != nil {
				continue
			}
			id := []string{"009a1f293253e41e", "00ffffffffffffff", "8000000000000001"}[i%3]
			path, err := nut13.DeriveKeysetPath(master, id)
			if err != nil {
				continue
			}
			ctr := uint32(i % 7)
			cpath, err := path.Derive(hdkeychain.HardenedKeyStart + ctr)
			if err != nil {
				continue
			}
			hit := false
			if leading(master) && foundMaster < 2 {
				foundMaster++
				hit = true
			}
			if leading(path) && foundKs < 4 {
				foundKs++
				hit = true
			}
			if leading(cpath) && foundCtr < 4 {
				foundCtr++
				hit = true
			}
			if !hit {
				continue
			}
			for _, c := range []uint32{ctr, ctr + 1} {
				sec, err1 := nut13.DeriveSecret(path, c)
				r, err2 := nut13.DeriveBlindingFactor(path, c)
				if err1 != nil || err2 != nil {
					continue
				}
				emit(map[string]any{"fn": "Nut13Secret", "seed": hex.EncodeToString(seedb[:]), "id": id, "ctr": int(c), "out": sec, "class": "leading-zero-key-on-path"})
				emit(map[string]any{"fn": "Nut13R", "seed": hex.EncodeToString(seedb[:]), "id": id, "ctr": int(c), "out": hex.EncodeToString(r.Serialize()), "class": "leading-zero-key-on-path"})
			}
		}
		// ---- NUT-13 ----
		ids := []string{"009a1f293253e41e", "00ffffffffffffff", "ffffffffffffffff", "8000000000000000", "7fffffffffffffff", "0000000000000000", "00000000ffffffff"}
		ctrs := []uint32{0, 1, 2, 65536, 1<<31 - 2, 1<<31 - 1}
		for i := 0; i < *n/4+6; i++ {
			seedb := make([]byte, []int{16, 32, 64}[rnd.Intn(3)])
			rnd.Read(seedb)
			master, err := hdkeychain.NewMaster(seedb, &chaincfg.MainNetParams)
			if err != nil {
				continue
			}
			id := ids[i%len(ids)]
			if i >= len(ids) {
				b := make([]byte, 8)
				rnd.Read(b)
				id = hex.EncodeToString(b)
			}
			ctr := ctrs[i%len(ctrs)]
			if i >= 2*len(ctrs) {
				ctr = uint32(rnd.Int63n(1 << 31))
			}
			path, err := nut13.DeriveKeysetPath(master, id)
			if err != nil {
				emit(map[string]any{"fn": "Nut13Secret", "seed": hex.EncodeToString(seedb), "id": id, "ctr": int(ctr), "out": "error:" + err.Error()})
				continue
			}
			sec, err1 := nut13.DeriveSecret(path, ctr)
			r, err2 := nut13.DeriveBlindingFactor(path, ctr)
			if err1 != nil || err2 != nil {
				continue
			}
			emit(map[string]any{"fn": "Nut13Secret", "seed": hex.EncodeToString(seedb), "id": id, "ctr": int(ctr), "out": sec})
			emit(map[string]any{"fn": "Nut13R", "seed": hex.EncodeToString(seedb), "id": id, "ctr": int(ctr), "out": hex.EncodeToString(r.Serialize())})
		}
	} else {
		// ---- BDHKE on sampled + edge inputs ----
		secrets := secretsFor(rnd, *n/8+8)
		for i, s := range secrets {
			r1, r2 := scalarEdge(rnd, i), scalarEdge(rnd, i+3)
			k := scalarEdge(rnd, i+1)
			B1, _, err := crypto.BlindMessage(s, priv(r1))
			if err != nil {
				continue
			}
			B2, _, _ := crypto.BlindMessage(s, priv(r2))
			emit(map[string]any{"fn": "Blind", "secret": hx(s), "r": r1, "out": ptHex(B1)})
			K := priv(k).PubKey()
			C1_ := crypto.SignBlindedMessage(B1, priv(k))
			C2_ := crypto.SignBlindedMessage(B2, priv(k))
			emit(map[string]any{"fn": "Sign", "B_": ptHex(B1), "k": k, "out": ptHex(C1_)})
			C1 := crypto.UnblindSignature(C1_, priv(r1), K)
			C2 := crypto.UnblindSignature(C2_, priv(r2), K)
			emit(map[string]any{"fn": "Unblind", "C_": ptHex(C1_), "r": r1, "K": ptHex(K), "out": ptHex(C1)})
			// independent of the blinding factor: the second r must give the same C (the spec computes it)
			emit(map[string]any{"fn": "Unblind", "C_": ptHex(C2_), "r": r2, "K": ptHex(K), "out": ptHex(C2), "sameas": ptHex(C1)})
			emit(map[string]any{"fn": "Verify", "secret": hx(s), "k": k, "C": ptHex(C1), "out": boolStr(crypto.Verify(s, priv(k), C1)), "want": "true"})
			// negative side: other key, other secret, other point
			k2 := scalarEdge(rnd, i+2)
			if k2 == k {
				k2 = scalarEdge(rnd, 5)
			}
			emit(map[string]any{"fn": "Verify", "secret": hx(s), "k": k2, "C": ptHex(C1), "out": boolStr(crypto.Verify(s, priv(k2), C1)), "want": "false"})
			emit(map[string]any{"fn": "Verify", "secret": hx(s + "x"), "k": k, "C": ptHex(C1), "out": boolStr(crypto.Verify(s+"x", priv(k), C1)), "want": "false"})
			emit(map[string]any{"fn": "Verify", "secret": hx(s), "k": k, "C": ptHex(B1), "out": boolStr(crypto.Verify(s, priv(k), B1)), "want": "false"})
			// points related to the genuine one: its mirror image -C (same x, other parity byte), C + G, 2C
			neg := []byte(ptHex(C1))
			neg[1] ^= 1 // "02" <-> "03"
			var cj, gj, sum, dbl secp256k1.JacobianPoint
			C1.AsJacobian(&cj)
			secp256k1.NewPrivateKey(new(secp256k1.ModNScalar).SetInt(1)).PubKey().AsJacobian(&gj)
			secp256k1.AddNonConst(&cj, &gj, &sum)
			secp256k1.DoubleNonConst(&cj, &dbl)
			sum.ToAffine()
			dbl.ToAffine()
			for _, rel := range []*secp256k1.PublicKey{parsePt(string(neg)), secp256k1.NewPublicKey(&sum.X, &sum.Y), secp256k1.NewPublicKey(&dbl.X, &dbl.Y)} {
				emit(map[string]any{"fn": "Verify", "secret": hx(s), "k": k, "C": ptHex(rel), "out": boolStr(crypto.Verify(s, priv(k), rel)), "want": "false"})
			}
			// DLEQ made by the library for this key
			e, sg := crypto.GenerateDLEQ(priv(k), B1, C1_)
			eh, sh := hex.EncodeToString(e.Serialize()), hex.EncodeToString(sg.Serialize())
			emit(map[string]any{"fn": "DleqVerify", "e": eh, "s": sh, "A": ptHex(K), "B_": ptHex(B1), "C_": ptHex(C1_),
				"out": boolStr(crypto.VerifyDLEQ(e, sg, K, B1, C1_)), "want": "true"})
		}
		// ---- what a real mint emits, stores and returns again after a restart ----
		w, err := world.New(world.Options{Dir: filepath.Join(*scratch, "m"), FeePpk: 0, Seed: *seed})
		if err != nil {
			fmt.Fprintln(os.Stderr, err)
			return 2
		}
		defer w.Close()
		type sigrec struct {
			secret string
			r      *secp256k1.PrivateKey
			B_     string
			sig    cashu.BlindedSignature
			A      *secp256k1.PublicKey
		}
		var recs []sigrec
		collect := func() {
			for _, id := range w.Reg.OutOrder {
				o := w.Reg.Outputs[id]
				if o.Signed {
					ks := w.Reg.Keysets["k0"]
					for _, kk := range w.Reg.Keysets {
						if kk.Real == o.Sig.Id {
							ks = kk
						}
					}
					recs = append(recs, sigrec{w.Reg.Secrets[o.Sec].Secret, o.R, o.B_, o.Sig, ks.Keys[o.Sig.Amount]})
				}
			}
		}
		w.Exec(world.Op{Op: "mintquote", Amt: 1023})
		w.Exec(world.Op{Op: "settle", Q: "mq1"})
		outs := []world.OutSpec{}
		for i := 0; i < 10; i++ {
			outs = append(outs, world.OutSpec{Amt: 1 << uint(i)})
		}
		w.Exec(world.Op{Op: "mint", Q: "mq1", Outs: outs})
		w.Exec(world.Op{Op: "rotate", Fee: 0})
		w.Exec(world.Op{Op: "swap", Ins: []world.InSpec{{P: "b10"}, {P: "b9"}}, Outs: []world.OutSpec{{Amt: 512}, {Amt: 128}, {Amt: 64}, {Amt: 32}, {Amt: 16}, {Amt: 8}, {Amt: 4}, {Amt: 2}, {Amt: 1}, {Amt: 1}}})
		collect()
		w.Exec(world.Op{Op: "restart"})
		// the same signatures as returned by restore after the restart
		var msgs cashu.BlindedMessages
		for _, r := range recs {
			msgs = append(msgs, cashu.BlindedMessage{Amount: r.sig.Amount, B_: r.B_, Id: r.sig.Id})
		}
		_, restored, err := w.Mint.RestoreSignatures(msgs)
		if err != nil || len(restored) != len(recs) {
			fmt.Fprintln(os.Stderr, "restore after restart failed:", err, len(restored), len(recs))
			return 2
		}
		flip := func(h string) string {
			b := []byte(h)
			if b[len(b)-1] == '0' {
				b[len(b)-1] = '1'
			} else {
				b[len(b)-1] = '0'
			}
			return string(b)
		}
		for i, r := range recs {
			for _, src := range []cashu.BlindedSignature{r.sig, restored[i]} {
				if src.DLEQ == nil {
					emit(map[string]any{"fn": "DleqVerify", "e": "", "s": "", "A": ptHex(r.A), "B_": r.B_, "C_": src.C_, "out": "missing", "want": "true"})
					continue
				}
				ok := nut12.VerifyBlindSignatureDLEQ(*src.DLEQ, r.A, r.B_, src.C_)
				emit(map[string]any{"fn": "DleqVerify", "e": src.DLEQ.E, "s": src.DLEQ.S, "A": ptHex(r.A), "B_": r.B_, "C_": src.C_,
					"out": boolStr(ok), "want": "true"})
			}
			// the proof a wallet hands to a third party: (e, s, r)
			C := crypto.UnblindSignature(parsePt(r.sig.C_), r.r, r.A)
			rh := hex.EncodeToString(r.r.Serialize())
			proof := cashu.Proof{Amount: r.sig.Amount, Id: r.sig.Id, Secret: r.secret, C: ptHex(C), DLEQ: &cashu.DLEQProof{E: r.sig.DLEQ.E, S: r.sig.DLEQ.S, R: rh}}
			emit(map[string]any{"fn": "ProofDleqVerify", "secret": hx(r.secret), "C": proof.C, "e": proof.DLEQ.E, "s": proof.DLEQ.S, "r": rh, "A": ptHex(r.A),
				"out": boolStr(nut12.VerifyProofDLEQ(proof, r.A)), "want": "true"})
			// ---- tamper table: exactly one field changed ----
			other := recs[(i+1)%len(recs)]
			tamperSig := []struct {
				what            string
				e, s, A, B_, C_ string
			}{
				{"e", flip(r.sig.DLEQ.E), r.sig.DLEQ.S, ptHex(r.A), r.B_, r.sig.C_},
				{"s", r.sig.DLEQ.E, flip(r.sig.DLEQ.S), ptHex(r.A), r.B_, r.sig.C_},
				{"A", r.sig.DLEQ.E, r.sig.DLEQ.S, ptHex(priv(scalarEdge(rnd, 5)).PubKey()), r.B_, r.sig.C_},
				{"B_", r.sig.DLEQ.E, r.sig.DLEQ.S, ptHex(r.A), other.B_, r.sig.C_},
				{"C_", r.sig.DLEQ.E, r.sig.DLEQ.S, ptHex(r.A), r.B_, other.sig.C_},
			}
			for _, t := range tamperSig {
				ok := nut12.VerifyBlindSignatureDLEQ(cashu.DLEQProof{E: t.e, S: t.s}, parsePt(t.A), t.B_, t.C_)
				emit(map[string]any{"fn": "DleqVerify", "e": t.e, "s": t.s, "A": t.A, "B_": t.B_, "C_": t.C_, "out": boolStr(ok), "want": "false", "tampered": t.what})
			}
			tp := func(what string, p cashu.Proof, A *secp256k1.PublicKey) {
				emit(map[string]any{"fn": "ProofDleqVerify", "secret": hx(p.Secret), "C": p.C, "e": p.DLEQ.E, "s": p.DLEQ.S, "r": p.DLEQ.R, "A": ptHex(A),
					"out": boolStr(nut12.VerifyProofDLEQ(p, A)), "want": "false", "tampered": what})
			}
			cp := func() cashu.Proof {
				q := proof
				d := *proof.DLEQ
				q.DLEQ = &d
				return q
			}
			q := cp()
			q.DLEQ.R = flip(rh)
			tp("r", q, r.A)
			q = cp()
			q.Secret = r.secret + "x"
			tp("secret", q, r.A)
			q = cp()
			q.C = other.sig.C_
			tp("C", q, r.A)
			// amount changed = verified against another denomination's key
			ks := w.Reg.Keysets["k0"]
			for _, kk := range w.Reg.Keysets {
				if kk.Real == r.sig.Id {
					ks = kk
				}
			}
			otherAmt := r.sig.Amount * 2
			tp("amount", cp(), ks.Keys[otherAmt])
			// a signature made with another key than the published one is detected
			badC_ := crypto.SignBlindedMessage(parsePt(r.B_), priv(scalarEdge(rnd, 5)))
			ok := nut12.VerifyBlindSignatureDLEQ(*r.sig.DLEQ, r.A, r.B_, ptHex(badC_))
			emit(map[string]any{"fn": "DleqVerify", "e": r.sig.DLEQ.E, "s": r.sig.DLEQ.S, "A": ptHex(r.A), "B_": r.B_, "C_": ptHex(badC_), "out": boolStr(ok), "want": "false", "tampered": "signed-with-other-key"})
		}
		_ = nut04.Unpaid
	}
	fmt.Printf("lines=%d\n", lines)
	return 0
}
