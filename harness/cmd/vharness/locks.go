package main

import (
	"bufio"
	"context"
	"crypto/sha256"
	"encoding/hex"
	"encoding/json"
	"flag"
	"fmt"
	"os"
	"path/filepath"
	"strings"
	"sync"
	"time"

	"github.com/btcsuite/btcd/btcec/v2"
	"github.com/btcsuite/btcd/btcec/v2/schnorr"
	"github.com/decred/dcrd/dcrec/secp256k1/v4"
	"github.com/elnosh/gonuts/cashu"
	"github.com/elnosh/gonuts/cashu/nuts/nut04"
	"github.com/elnosh/gonuts/cashu/nuts/nut05"
	"github.com/elnosh/gonuts/cashu/nuts/nut10"
	"github.com/elnosh/gonuts/cashu/nuts/nut11"
	"github.com/elnosh/gonuts/cashu/nuts/nut14"
	"github.com/elnosh/gonuts/crypto"

	"verif/harness/world"
)

// Concretisation of the cases enumerated by Locks.tla: real keys, real Schnorr signatures, real
// NUT-10 secrets, mint-signed proofs; the verdict recorded is the real code's.

func init() { commands["locks"] = cmdLocks }

type lockWit struct {
	Form  string   `json:"form"`
	Items []string `json:"items"`
	Dup   bool     `json:"dup"`
}

type lockCase struct {
	Kind  string  `json:"kind"`
	NSigs int     `json:"nsigs"`
	NPub  int     `json:"npub"`
	Lt    string  `json:"lt"`
	NRef  int     `json:"nref"`
	Flag  string  `json:"flag"`
	Wit   lockWit `json:"wit"`
	Hash  string  `json:"hash"`
	Pre   string  `json:"pre"`
	Ep    string  `json:"ep"`
	Pos   string  `json:"pos"`
	OSig  string  `json:"osig"`
	Pair  string  `json:"pair"`
}

type lockLine struct {
	C      json.RawMessage `json:"c"`
	Expect string          `json:"expect"`
	Actual string          `json:"actual"`
	Detail string          `json:"detail"`
}

func keyFor(name string) *btcec.PrivateKey {
	h := sha256.Sum256([]byte("verif-locks-key-" + name))
	k, _ := btcec.PrivKeyFromBytes(h[:])
	return k
}

func pubHex(name string) string {
	return hex.EncodeToString(keyFor(name).PubKey().SerializeCompressed())
}

var thePreimage = sha256.Sum256([]byte("verif-htlc-preimage"))

func preimageHex() string { return hex.EncodeToString(thePreimage[:]) }

// lockSecret builds the NUT-10 secret of a case.
func lockSecret(c lockCase, nonce string) string {
	tags := [][]string{}
	switch c.Flag {
	case "inputs":
		tags = append(tags, []string{"sigflag", "SIG_INPUTS"})
	case "all":
		tags = append(tags, []string{"sigflag", "SIG_ALL"})
	}
	if c.NSigs >= 0 {
		tags = append(tags, []string{"n_sigs", fmt.Sprint(c.NSigs)})
	}
	if c.NPub > 0 {
		t := []string{"pubkeys"}
		for i := 1; i <= c.NPub; i++ {
			t = append(t, pubHex(fmt.Sprintf("P%d", i)))
		}
		tags = append(tags, t)
	}
	switch c.Lt {
	case "past":
		tags = append(tags, []string{"locktime", fmt.Sprint(time.Now().Unix() - 3600)})
	case "future":
		tags = append(tags, []string{"locktime", fmt.Sprint(time.Now().Unix() + 36000)})
	}
	if c.NRef > 0 {
		t := []string{"refund"}
		for i := 1; i <= c.NRef; i++ {
			t = append(t, pubHex(fmt.Sprintf("R%d", i)))
		}
		tags = append(tags, t)
	}
	data := pubHex("L")
	if c.Kind == "HTLC" {
		h := sha256.Sum256(thePreimage[:])
		data = hex.EncodeToString(h[:])
		switch c.Hash {
		case "short":
			data = data[:32]
		case "nothex":
			data = "zz" + data[2:]
		case "upper":
			data = strings.ToUpper(data)
		}
	}
	tj, _ := json.Marshal(tags)
	return fmt.Sprintf(`["%s",{"nonce":"%s","data":"%s","tags":%s}]`, c.Kind, nonce, data, tj)
}

func sigItem(item, secret string, n int) string {
	msg := sha256.Sum256([]byte(secret))
	sign := func(key string, h [32]byte, other bool) string {
		var s *schnorr.Signature
		var err error
		if other {
			aux := sha256.Sum256([]byte(fmt.Sprintf("other-nonce-%d", n)))
			s, err = schnorr.Sign(keyFor(key), h[:], schnorr.CustomNonce(aux))
		} else {
			s, err = schnorr.Sign(keyFor(key), h[:])
		}
		if err != nil {
			panic(err)
		}
		return hex.EncodeToString(s.Serialize())
	}
	switch item {
	case "L", "P1", "P2", "P3", "R1", "R2", "F":
		return sign(item, msg, false)
	case "L2":
		return sign("L", msg, true)
	case "P1b":
		return sign("P1", msg, true)
	case "WL":
		return sign("L", sha256.Sum256([]byte(secret+"-another-message")), false)
	case "G":
		return strings.Repeat("ab", 64)
	case "X":
		return "zz-not-hex"
	}
	panic("unknown witness item " + item)
}

func lockWitness(c lockCase, secret string) string {
	switch c.Wit.Form {
	case "none":
		return ""
	case "notjson":
		return "this is not json"
	}
	sigs := []string{}
	if c.Wit.Form == "list" {
		for i, it := range c.Wit.Items {
			sigs = append(sigs, sigItem(it, secret, i))
		}
		if c.Wit.Dup && len(sigs) > 0 {
			sigs = append(sigs, sigs[0])
		}
	}
	if c.Kind == "HTLC" {
		m := map[string]any{"signatures": sigs}
		switch c.Pre {
		case "right":
			m["preimage"] = preimageHex()
		case "wrong":
			w := sha256.Sum256([]byte("wrong"))
			m["preimage"] = hex.EncodeToString(w[:])
		case "nothex":
			m["preimage"] = "zz" + preimageHex()[2:]
		case "empty":
			m["preimage"] = ""
		}
		b, _ := json.Marshal(m)
		return string(b)
	}
	b, _ := json.Marshal(map[string]any{"signatures": sigs})
	return string(b)
}

func verdictOf(err error, pan bool) (string, string) {
	if pan {
		return "panic", ""
	}
	if err != nil {
		return "reject", err.Error()
	}
	return "accept", ""
}

func runVerify(c lockCase) (actual, detail string) {
	secret := lockSecret(c, "00")
	proof := cashu.Proof{Amount: 1, Id: "00", Secret: secret, C: "02", Witness: lockWitness(c, secret)}
	var err error
	pan := false
	func() {
		defer func() {
			if r := recover(); r != nil {
				pan = true
				detail = fmt.Sprint(r)
			}
		}()
		ws, derr := nut10.DeserializeSecret(secret)
		if derr != nil {
			err = derr
			return
		}
		if c.Kind == "P2PK" {
			err = nut11.VerifyP2PKLockedProof(proof, ws)
		} else {
			err = nut14.VerifyHTLCProof(proof, ws)
		}
	}()
	a, d := verdictOf(err, pan)
	if detail == "" {
		detail = d
	}
	return a, detail
}

type pendingOut struct {
	secret string
	r      *secp256k1.PrivateKey
	msg    cashu.BlindedMessage
}

// mintBatch runs a group of mint-level cases on one fresh mint.
func mintBatch(dir string, seed int64, cases []lockCase, idx []int, out []lockLine) error {
	os.RemoveAll(dir)
	defer os.RemoveAll(dir)
	w, err := world.New(world.Options{Dir: dir, FeePpk: 0, FeeReserve: "zero", Seed: seed})
	if err != nil {
		return err
	}
	defer w.Close()
	ks := w.ActiveKeyset()
	mk := func(secret string, amt uint64) pendingOut {
		rb := sha256.Sum256([]byte("r-" + secret))
		rb[0] &= 0x7f
		r := secp256k1.PrivKeyFromBytes(rb[:])
		B_, _, err := crypto.BlindMessage(secret, r)
		if err != nil {
			panic(err)
		}
		return pendingOut{secret, r, cashu.BlindedMessage{Amount: amt, B_: hex.EncodeToString(B_.SerializeCompressed()), Id: ks.Real}}
	}
	// one locked proof (2 sat), two plain proofs (1 sat each) and a locked partner (2 sat) per case
	partnerOf := func(c lockCase) lockCase {
		p := c
		switch c.Pair {
		case "nsigs":
			if c.NSigs == 2 {
				p.NSigs = 1
			} else {
				p.NSigs = 2
			}
		case "keys":
			p.NPub = c.NPub - 1
		case "noflag":
			p.Flag = "none"
		}
		if p.NSigs == 2 {
			p.Wit = lockWit{Form: "list", Items: []string{"L", "P1"}}
		} else {
			p.Wit = lockWit{Form: "list", Items: []string{"L"}}
		}
		return p
	}
	var outs []pendingOut
	for n, ci := range idx {
		c := cases[ci]
		outs = append(outs, mk(lockSecret(c, fmt.Sprintf("%08x%04x", ci, n)), 2))
		outs = append(outs, mk(fmt.Sprintf("plain-a-%d-%d", seed, ci), 1), mk(fmt.Sprintf("plain-b-%d-%d", seed, ci), 1))
		outs = append(outs, mk(lockSecret(partnerOf(c), fmt.Sprintf("%08x%04xff", ci, n)), 2))
	}
	total := uint64(len(idx)) * 6
	q, err := w.Mint.RequestMintQuote(nut04.PostMintQuoteBolt11Request{Amount: total, Unit: "sat"})
	if err != nil {
		return err
	}
	w.Net.SettleExternally(q.PaymentHash)
	msgs := make(cashu.BlindedMessages, len(outs))
	for i := range outs {
		msgs[i] = outs[i].msg
	}
	sigs, err := w.Mint.MintTokens(nut04.PostMintBolt11Request{Quote: q.Id, Outputs: msgs})
	if err != nil {
		return fmt.Errorf("funding mint failed: %v", err)
	}
	proofOf := func(i int) cashu.Proof {
		C_b, _ := hex.DecodeString(sigs[i].C_)
		C_, _ := secp256k1.ParsePubKey(C_b)
		C := crypto.UnblindSignature(C_, outs[i].r, ks.Keys[sigs[i].Amount])
		return cashu.Proof{Amount: sigs[i].Amount, Id: sigs[i].Id, Secret: outs[i].secret, C: hex.EncodeToString(C.SerializeCompressed())}
	}
	for n, ci := range idx {
		c := cases[ci]
		locked := proofOf(4 * n)
		locked.Witness = lockWitness(c, locked.Secret)
		pa, pb := proofOf(4*n+1), proofOf(4*n+2)
		partner := proofOf(4*n + 3)
		partner.Witness = lockWitness(partnerOf(c), partner.Secret)
		var ins cashu.Proofs
		switch c.Pos {
		case "only":
			ins = cashu.Proofs{locked}
		case "first":
			ins = cashu.Proofs{locked, pa}
		case "middle":
			ins = cashu.Proofs{pa, locked, pb}
		case "last":
			ins = cashu.Proofs{pa, locked}
		case "pairfirst":
			ins = cashu.Proofs{partner, locked}
		case "pairlast":
			ins = cashu.Proofs{locked, partner}
		}
		sum := ins.Amount()
		var rerr error
		pan := false
		detail := ""
		func() {
			defer func() {
				if r := recover(); r != nil {
					pan = true
					detail = fmt.Sprint(r)
				}
			}()
			if c.Ep == "swap" {
				// outputs: 1-sat messages
				var bms cashu.BlindedMessages
				for k := uint64(0); k < sum; k++ {
					bms = append(bms, mk(fmt.Sprintf("out-%d-%d-%d", seed, ci, k), 1).msg)
				}
				signer := keyFor("L")
				if c.Kind == "HTLC" {
					signer = keyFor("P1")
				}
				// outputs signed by hand (P2PK): which keys sign which output
				outSig := func(k int, key string, other bool) string {
					raw, _ := hex.DecodeString(bms[k].B_)
					h := sha256.Sum256(raw)
					var sg *schnorr.Signature
					if other {
						aux := sha256.Sum256([]byte(fmt.Sprintf("other-nonce-out-%d", k)))
						sg, _ = schnorr.Sign(keyFor(key), h[:], schnorr.CustomNonce(aux))
					} else {
						sg, _ = schnorr.Sign(keyFor(key), h[:])
					}
					return hex.EncodeToString(sg.Serialize())
				}
				setSigs := func(k int, sigs ...string) {
					b, _ := json.Marshal(map[string]any{"signatures": sigs})
					bms[k].Witness = string(b)
				}
				switch c.OSig {
				case "cosigner":
					// every output signed by the first co-signer alone (the helper, with a key that is not the lock key)
					bms, rerr = nut11.AddSignatureToOutputs(bms, keyFor("P1"))
					if rerr != nil {
						return
					}
				case "onekeytwice":
					// the first output carries signatures of two different co-signers; every later one two different
					// signatures of the lock key alone
					for k := range bms {
						if k == 0 {
							setSigs(k, outSig(k, "P1", false), outSig(k, "P2", false))
						} else {
							setSigs(k, outSig(k, "L", false), outSig(k, "L", true))
						}
					}
				case "valid", "onemissing", "laterbad", "firstbad", "latermissing":
					var e error
					if c.Kind == "P2PK" {
						bms, e = nut11.AddSignatureToOutputs(bms, signer)
					} else {
						bms, e = nut14.AddWitnessHTLCToOutputs(bms, preimageHex(), signer)
					}
					if e != nil {
						rerr = e
						return
					}
					if c.OSig == "onemissing" {
						bms[len(bms)-1].Witness = ""
					}
					// witnesses that differ per output: every output is validly signed, but not every one carries what SIG_ALL
					// demands (HTLC: the right preimage; P2PK: a signature of an authorised key)
					spoil := func(k int, missing bool) {
						if c.Kind == "HTLC" {
							var hw nut14.HTLCWitness
							json.Unmarshal([]byte(bms[k].Witness), &hw)
							if missing {
								b, _ := json.Marshal(map[string]any{"signatures": hw.Signatures})
								bms[k].Witness = string(b)
							} else {
								hw.Preimage = strings.Repeat("5a", 32)
								b, _ := json.Marshal(hw)
								bms[k].Witness = string(b)
							}
						} else if missing {
							bms[k].Witness = ""
						} else {
							one := cashu.BlindedMessages{bms[k]}
							one[0].Witness = ""
							one, _ = nut11.AddSignatureToOutputs(one, keyFor("F"))
							bms[k].Witness = one[0].Witness
						}
					}
					switch c.OSig {
					case "laterbad":
						for k := 1; k < len(bms); k++ {
							spoil(k, false)
						}
					case "latermissing":
						for k := 1; k < len(bms); k++ {
							spoil(k, true)
						}
					case "firstbad":
						spoil(0, false)
					}
				case "garbage":
					for k := range bms {
						if c.Kind == "P2PK" {
							bms[k].Witness = `{"signatures":["` + strings.Repeat("ab", 64) + `"]}`
						} else {
							bms[k].Witness = `{"preimage":"` + preimageHex() + `","signatures":["` + strings.Repeat("ab", 64) + `"]}`
						}
					}
				}
				_, rerr = w.Mint.Swap(ins, bms)
			} else {
				inv, e := w.Net.NewInvoice("", sum*1000)
				if e != nil {
					rerr = e
					return
				}
				mq, e := w.Mint.RequestMeltQuote(nut05.PostMeltQuoteBolt11Request{Request: inv.Request, Unit: "sat"})
				if e != nil {
					rerr = fmt.Errorf("melt quote: %v", e)
					return
				}
				_, rerr = w.Mint.MeltTokens(context.Background(), nut05.PostMeltBolt11Request{Quote: mq.Id, Inputs: ins})
			}
		}()
		a, d := verdictOf(rerr, pan)
		if detail == "" {
			detail = d
		}
		out[ci].Actual, out[ci].Detail = a, detail
	}
	return nil
}

func cmdLocks(args []string) int {
	fs := flag.NewFlagSet("locks", flag.ExitOnError)
	in := fs.String("in", "", "cases ndjson (from Locks.tla)")
	outp := fs.String("out", "", "results ndjson")
	scratch := fs.String("scratch", "/dev/shm/verif-locks", "scratch dir")
	seed := fs.Int64("seed", 1, "seed")
	workers := fs.Int("workers", 14, "parallel workers")
	fs.Parse(args)
	f, err := os.Open(*in)
	if err != nil {
		fmt.Fprintln(os.Stderr, err)
		return 2
	}
	var lines []lockLine
	var cases []lockCase
	sc := bufio.NewScanner(f)
	sc.Buffer(make([]byte, 1<<20), 1<<24)
	for sc.Scan() {
		var l lockLine
		if err := json.Unmarshal(sc.Bytes(), &l); err != nil {
			fmt.Fprintln(os.Stderr, "bad case line:", err)
			return 2
		}
		var c lockCase
		if err := json.Unmarshal(l.C, &c); err != nil {
			fmt.Fprintln(os.Stderr, "bad case:", err)
			return 2
		}
		lines = append(lines, l)
		cases = append(cases, c)
	}
	f.Close()
	os.MkdirAll(*scratch, 0o755)
	defer os.RemoveAll(*scratch)
	// verifier level
	var wg sync.WaitGroup
	sem := make(chan struct{}, *workers)
	var mintIdx []int
	for i := range cases {
		if cases[i].Ep != "verify" {
			mintIdx = append(mintIdx, i)
			continue
		}
		wg.Add(1)
		sem <- struct{}{}
		go func(i int) {
			defer wg.Done()
			defer func() { <-sem }()
			lines[i].Actual, lines[i].Detail = runVerify(cases[i])
		}(i)
	}
	wg.Wait()
	// mint level, in batches on fresh mints
	const batch = 60
	var firstErr error
	var mu sync.Mutex
	for b := 0; b*batch < len(mintIdx); b++ {
		lo, hi := b*batch, (b+1)*batch
		if hi > len(mintIdx) {
			hi = len(mintIdx)
		}
		wg.Add(1)
		sem <- struct{}{}
		go func(b int, idx []int) {
			defer wg.Done()
			defer func() { <-sem }()
			if err := mintBatch(filepath.Join(*scratch, fmt.Sprintf("b%d", b)), *seed*1000+int64(b), cases, idx, lines); err != nil {
				mu.Lock()
				if firstErr == nil {
					firstErr = err
				}
				mu.Unlock()
			}
		}(b, mintIdx[lo:hi])
	}
	wg.Wait()
	if firstErr != nil {
		fmt.Fprintln(os.Stderr, "mint-level driver error:", firstErr)
		return 2
	}
	of, err := os.Create(*outp)
	if err != nil {
		fmt.Fprintln(os.Stderr, err)
		return 2
	}
	defer of.Close()
	bw := bufio.NewWriter(of)
	enc := json.NewEncoder(bw)
	for i := range lines {
		if lines[i].Actual == "" {
			fmt.Fprintf(os.Stderr, "case %d was not executed\n", i)
			return 2
		}
		enc.Encode(lines[i])
	}
	bw.Flush()
	fmt.Printf("cases=%d verify=%d mint=%d\n", len(lines), len(lines)-len(mintIdx), len(mintIdx))
	return 0
}
