package main

import (
	"bufio"
	"encoding/base64"
	"encoding/hex"
	"encoding/json"
	"flag"
	"fmt"
	"math/rand"
	"os"
	"sort"
	"strings"

	"github.com/elnosh/gonuts/cashu"
	"github.com/fxamacker/cbor/v2"
)

// Concretisation of Token.tla's cases on the real codecs.

func init() { commands["tokens"] = cmdTokens }

type tokCase struct {
	Kind string `json:"kind"`
	Cls  string `json:"cls"`
	N    int    `json:"n"`
	NKs  int    `json:"nks"`
	Sec  string `json:"sec"`
	Wit  bool   `json:"wit"`
	Dleq string `json:"dleq"`
	Amt  string `json:"amt"`
	Ver  string `json:"ver"`
	Incl bool   `json:"incl"`
	Form string `json:"form"`
}

type tokLine struct {
	C      json.RawMessage `json:"c"`
	Expect string          `json:"expect"`
	Actual string          `json:"actual"`
	Detail string          `json:"detail"`
}

func hexN(rnd *rand.Rand, n int) string {
	b := make([]byte, n)
	rnd.Read(b)
	return hex.EncodeToString(b)
}

func buildProofs(c tokCase, rnd *rand.Rand) cashu.Proofs {
	ks := make([]string, c.NKs)
	for i := range ks {
		ks[i] = "00" + hexN(rnd, 7)
	}
	proofs := make(cashu.Proofs, c.N)
	for i := range proofs {
		var secret string
		switch c.Sec {
		case "hex":
			secret = hexN(rnd, 32)
		case "nut10":
			secret = fmt.Sprintf(`["P2PK",{"nonce":"%s","data":"02%s","tags":[["sigflag","SIG_ALL"],["n_sigs","2"]]}]`, hexN(rnd, 16), hexN(rnd, 32))
		case "unicode":
			secret = "sécret-✓-\"q\"-\\-" + hexN(rnd, 4) + "-日本"
		case "long":
			secret = strings.Repeat("s", 500) + hexN(rnd, 6)
		}
		var amt uint64
		switch c.Amt {
		case "small":
			amt = uint64(1) << uint(rnd.Intn(20))
		case "two63":
			amt = 1 << 63
		case "mixed":
			amt = []uint64{1, 1 << 63, 1 << 59, 3, 1 << 62}[i%5]
		}
		p := cashu.Proof{Amount: amt, Id: ks[i%len(ks)], Secret: secret, C: "02" + hexN(rnd, 32)}
		if c.Wit {
			p.Witness = `{"signatures":["` + hexN(rnd, 64) + `"]}`
		}
		switch {
		case c.Dleq == "es":
			p.DLEQ = &cashu.DLEQProof{E: hexN(rnd, 32), S: hexN(rnd, 32)}
		case c.Dleq == "esr", c.Dleq == "esr-even" && i%2 == 0, c.Dleq == "esr-odd" && i%2 == 1:
			// esr-even / esr-odd: a list in which only some proofs carry a DLEQ (restored next to freshly minted ones)
			p.DLEQ = &cashu.DLEQProof{E: hexN(rnd, 32), S: hexN(rnd, 32), R: hexN(rnd, 32)}
		}
		proofs[i] = p
	}
	if c.N > 0 {
		switch c.Form {
		case "cnothex":
			proofs[c.N/2].C = "zz" + proofs[c.N/2].C[2:]
		case "idnothex":
			proofs[c.N/2].Id = "zznothex"
		}
	}
	return proofs
}

func proofKey(p cashu.Proof, withDleq bool) string {
	d := ""
	if withDleq && p.DLEQ != nil {
		d = p.DLEQ.E + "/" + p.DLEQ.S + "/" + p.DLEQ.R
	}
	return fmt.Sprintf("%d|%s|%s|%s|%s|%s", p.Amount, p.Id, p.Secret, p.C, p.Witness, d)
}

func runRoundTrip(c tokCase, rnd *rand.Rand) (actual, detail string) {
	defer func() {
		if r := recover(); r != nil {
			actual, detail = "panic:roundtrip", fmt.Sprint(r)
		}
	}()
	orig := buildProofs(c, rnd)
	// keep an own copy: the constructors may edit the slice they are given
	want := make(cashu.Proofs, len(orig))
	for i, p := range orig {
		want[i] = p
		if p.DLEQ != nil {
			d := *p.DLEQ
			want[i].DLEQ = &d
		}
	}
	const mintURL = "https://mint.example.com:3338/path"
	var tok cashu.Token
	var err error
	if c.Ver == "V3" {
		var t cashu.TokenV3
		t, err = cashu.NewTokenV3(orig, mintURL, cashu.Sat, c.Incl)
		tok = t
	} else {
		var t cashu.TokenV4
		t, err = cashu.NewTokenV4(orig, mintURL, cashu.Sat, c.Incl)
		tok = t
	}
	if err != nil {
		return "fail", err.Error()
	}
	s, err := tok.Serialize()
	if err != nil {
		return "fail", "serialize: " + err.Error()
	}
	dec, err := cashu.DecodeToken(s)
	if err != nil {
		return "decode-error", err.Error()
	}
	if dec.Mint() != mintURL {
		return "mismatch:mint", dec.Mint()
	}
	got := dec.Proofs()
	if len(got) != len(want) {
		return "mismatch:count", fmt.Sprintf("%d vs %d", len(got), len(want))
	}
	// DLEQ is kept exactly when requested: every proof that had one comes back with the same (e, s, r), every other without
	keep := c.Incl
	a, b := make([]string, len(got)), make([]string, len(want))
	nWant, nGot := 0, 0
	for i := range got {
		if !keep && got[i].DLEQ != nil {
			return "mismatch:dleq-not-stripped", ""
		}
		if got[i].DLEQ != nil {
			nGot++
		}
		if want[i].DLEQ != nil {
			nWant++
		}
		a[i], b[i] = proofKey(got[i], keep), proofKey(want[i], keep)
	}
	if keep && nGot < nWant {
		return "mismatch:dleq-lost", fmt.Sprintf("%d of %d", nGot, nWant)
	}
	if keep && nGot > nWant {
		return "mismatch:dleq-invented", fmt.Sprintf("%d of %d", nGot, nWant)
	}
	sort.Strings(a)
	sort.Strings(b)
	for i := range a {
		if a[i] != b[i] {
			return "mismatch:proof", a[i][:min(len(a[i]), 120)] + " <> " + b[i][:min(len(b[i]), 120)]
		}
	}
	var sum uint64
	for _, p := range want {
		sum += p.Amount
	}
	if dec.Amount() != sum || tok.Amount() != sum {
		return "mismatch:amount", fmt.Sprintf("%d / %d vs %d", dec.Amount(), tok.Amount(), sum)
	}
	// unit: both formats carry "sat"
	switch t := dec.(type) {
	case *cashu.TokenV3:
		if t.Unit != "sat" {
			return "mismatch:unit", t.Unit
		}
	case *cashu.TokenV4:
		if t.Unit != "sat" {
			return "mismatch:unit", t.Unit
		}
	}
	return "roundtrip", ""
}

// decodeTotal: DecodeToken on s either errs or returns a token on which every accessor can be called.
func decodeTotal(s string) (ok bool, where string) {
	defer func() {
		if r := recover(); r != nil {
			ok, where = false, fmt.Sprintf("%s: %v", where, r)
		}
	}()
	where = "DecodeToken"
	t, err := cashu.DecodeToken(s)
	if err != nil {
		return true, ""
	}
	where = "Proofs"
	_ = t.Proofs()
	where = "Mint"
	_ = t.Mint()
	where = "Amount"
	_ = t.Amount()
	where = "Serialize"
	_, _ = t.Serialize()
	return true, ""
}

func validTokens(rnd *rand.Rand) (string, string) {
	c := tokCase{N: 3, NKs: 2, Sec: "hex", Wit: true, Dleq: "esr", Amt: "small", Form: "hex"}
	p := buildProofs(c, rnd)
	t3, _ := cashu.NewTokenV3(append(cashu.Proofs{}, p...), "https://m.example", cashu.Sat, true)
	t4, _ := cashu.NewTokenV4(append(cashu.Proofs{}, p...), "https://m.example", cashu.Sat, true)
	s3, _ := t3.Serialize()
	s4, _ := t4.Serialize()
	return s3, s4
}

func runDecode(cls string, rnd *rand.Rand) (actual, detail string) {
	var inputs []string
	s3, s4 := validTokens(rnd)
	b64 := func(b []byte) string { return base64.URLEncoding.EncodeToString(b) }
	raw := func(b []byte) string { return base64.RawURLEncoding.EncodeToString(b) }
	alphabet := "cashuAB=-_ {}[]\"0z"
	switch {
	case strings.HasPrefix(cls, "len"):
		n := int(cls[3] - '0')
		for k := 0; k < 200; k++ {
			b := make([]byte, n)
			for i := range b {
				b[i] = alphabet[rnd.Intn(len(alphabet))]
			}
			inputs = append(inputs, string(b))
		}
		inputs = append(inputs, "cashuA"[:min(n, 6)]+strings.Repeat("A", max(0, n-6)), "cashuB"[:min(n, 6)]+strings.Repeat("A", max(0, n-6)))
	case cls == "wrongprefix":
		inputs = []string{"cashuC" + s3[6:], "Cashua" + s3[6:], "cashu" + s3[6:], " cashuA" + s3[6:], "casheB" + s4[6:], "xxxxxx" + s4[6:]}
	case cls == "prefix-only-A":
		inputs = []string{"cashuA"}
	case cls == "prefix-only-B":
		inputs = []string{"cashuB"}
	case cls == "b64invalid-A":
		inputs = []string{"cashuA!!!!", "cashuA" + s3[6:20] + "*" + s3[21:], "cashuA====", "cashuAab c"}
	case cls == "b64invalid-B":
		inputs = []string{"cashuB!!!!", "cashuB" + s4[6:20] + "*" + s4[21:], "cashuB====", "cashuBab c"}
	case cls == "b64-nonjson-A":
		inputs = []string{"cashuA" + b64([]byte("hello")), "cashuA" + b64([]byte{0xff, 0x00, 0x01}), "cashuA" + b64([]byte("[1,2,3]")), "cashuA" + b64([]byte(`"str"`)), "cashuA" + b64([]byte("12"))}
	case cls == "b64-noncbor-B":
		inputs = []string{"cashuB" + raw([]byte("hello")), "cashuB" + raw([]byte{0xff, 0xff}), "cashuB" + raw([]byte{0x83, 1, 2, 3}), "cashuB" + raw([]byte{0x01}), "cashuB" + raw([]byte{0xa1})}
	case cls == "json-emptylist-A":
		inputs = []string{"cashuA" + b64([]byte(`{"token":[],"unit":"sat"}`)), "cashuA" + b64([]byte(`{"token":[]}`))}
	case cls == "json-notokenfield-A":
		inputs = []string{"cashuA" + b64([]byte(`{"unit":"sat"}`)), "cashuA" + b64([]byte(`{}`))}
	case cls == "json-null-A":
		inputs = []string{"cashuA" + b64([]byte(`null`)), "cashuA" + b64([]byte(`{"token":null}`)), "cashuA" + b64([]byte(`{"token":[{"mint":"m","proofs":null}]}`)),
			"cashuA" + b64([]byte(`{"token":[null]}`))}
	case cls == "json-wrongtypes-A":
		inputs = []string{"cashuA" + b64([]byte(`{"token":"x"}`)), "cashuA" + b64([]byte(`{"token":[{"mint":1,"proofs":[]}]}`)),
			"cashuA" + b64([]byte(`{"token":[{"mint":"m","proofs":[{"amount":"1"}]}]}`)), "cashuA" + b64([]byte(`{"token":[{"mint":"m","proofs":[{"amount":-1}]}]}`))}
	case cls == "cbor-emptylist-B":
		e1, _ := cbor.Marshal(map[string]any{"t": []any{}, "m": "https://m", "u": "sat"})
		e2, _ := cbor.Marshal(map[string]any{"t": []any{map[string]any{"i": []byte{0}, "p": []any{}}}, "m": "m", "u": "sat"})
		inputs = []string{"cashuB" + raw(e1), "cashuB" + raw(e2)}
	case cls == "cbor-nofields-B":
		e1, _ := cbor.Marshal(map[string]any{})
		e2, _ := cbor.Marshal(map[string]any{"x": 1})
		inputs = []string{"cashuB" + raw(e1), "cashuB" + raw(e2)}
	case cls == "cbor-wrongtypes-B":
		e1, _ := cbor.Marshal(map[string]any{"t": "x", "m": 1, "u": 2})
		e2, _ := cbor.Marshal(map[string]any{"t": []any{map[string]any{"i": "notbytes", "p": []any{map[string]any{"a": "1", "s": 2, "c": "x"}}}}})
		e3, _ := cbor.Marshal(map[string]any{"t": []any{nil}, "m": "m", "u": "sat"})
		e4, _ := cbor.Marshal(map[string]any{"t": []any{map[string]any{"i": nil, "p": []any{nil}}}, "m": "m", "u": "sat"})
		inputs = []string{"cashuB" + raw(e1), "cashuB" + raw(e2), "cashuB" + raw(e3), "cashuB" + raw(e4)}
	case strings.HasPrefix(cls, "truncate-every-position"):
		s := s3
		if strings.HasSuffix(cls, "B") {
			s = s4
		}
		for i := 0; i <= len(s); i++ {
			inputs = append(inputs, s[:i])
		}
	case strings.HasPrefix(cls, "mutate-every-position"):
		s := s3
		if strings.HasSuffix(cls, "B") {
			s = s4
		}
		for i := 0; i < len(s); i++ {
			for _, ch := range []byte{'A', '_', '0', '=', 'z'} {
				if s[i] != ch {
					inputs = append(inputs, s[:i]+string(ch)+s[i+1:])
				}
			}
		}
	case strings.HasPrefix(cls, "random-base64"):
		pre := "cashuA"
		enc := b64
		if strings.HasSuffix(cls, "B") {
			pre, enc = "cashuB", raw
		}
		for k := 0; k < 3000; k++ {
			b := make([]byte, rnd.Intn(60))
			rnd.Read(b)
			if k%3 == 0 && len(b) > 0 {
				// JSON-ish / CBOR-map-ish starts
				if pre == "cashuA" {
					b = append([]byte(`{"token":[{"mint":"m","proofs":[`), b...)
				} else {
					b = append([]byte{0xa3, 0x61, 't'}, b...)
				}
			}
			inputs = append(inputs, pre+enc(b))
		}
	default:
		return "panic:unknown-class", cls
	}
	for _, in := range inputs {
		if ok, where := decodeTotal(in); !ok {
			show := in
			if len(show) > 60 {
				show = show[:60] + "…"
			}
			return "panic:" + strings.SplitN(where, ":", 2)[0], fmt.Sprintf("input %q: %s (class has %d inputs)", show, where, len(inputs))
		}
	}
	return "total", fmt.Sprintf("%d inputs", len(inputs))
}

func cmdTokens(args []string) int {
	fs := flag.NewFlagSet("tokens", flag.ExitOnError)
	in := fs.String("in", "", "cases ndjson (from Token.tla)")
	outp := fs.String("out", "", "results ndjson")
	seed := fs.Int64("seed", 1, "seed")
	fs.Parse(args)
	f, err := os.Open(*in)
	if err != nil {
		fmt.Fprintln(os.Stderr, err)
		return 2
	}
	defer f.Close()
	of, err := os.Create(*outp)
	if err != nil {
		fmt.Fprintln(os.Stderr, err)
		return 2
	}
	defer of.Close()
	bw := bufio.NewWriter(of)
	defer bw.Flush()
	enc := json.NewEncoder(bw)
	sc := bufio.NewScanner(f)
	sc.Buffer(make([]byte, 1<<20), 1<<24)
	n, inputs := 0, 0
	for sc.Scan() {
		var l tokLine
		if err := json.Unmarshal(sc.Bytes(), &l); err != nil {
			fmt.Fprintln(os.Stderr, "bad line:", err)
			return 2
		}
		var c tokCase
		json.Unmarshal(l.C, &c)
		rnd := rand.New(rand.NewSource(*seed*7919 + int64(n)))
		if c.Kind == "decode" {
			l.Actual, l.Detail = runDecode(c.Cls, rnd)
		} else {
			l.Actual, l.Detail = runRoundTrip(c, rnd)
		}
		enc.Encode(l)
		n++
		inputs++
	}
	fmt.Printf("cases=%d\n", n)
	return 0
}
