package main

import (
	"encoding/json"
	"flag"
	"fmt"
	"os"
	"path/filepath"
	"sync"
	"time"

	"verif/harness/world"
)

// CrashScenario: a prefix history, one victim operation in which the process dies (or one of
// whose storage/Lightning calls fails), a restart on the same directory and an adversarial
// follow-up.
type CrashScenario struct {
	Name     string     `json:"name"`
	Fee      uint       `json:"fee"`
	Policy   string     `json:"policy"`
	Prefix   []world.Op `json:"prefix"`
	Victim   world.Op   `json:"victim"`
	Followup []world.Op `json:"followup"`
	Errors   bool       `json:"errors"`
	// HTTP: every operation goes through the HTTP handler with hand-built JSON (C20: how faults are reported)
	HTTP bool `json:"http"`
	// NoCrash: only the error mode (a failing call), no process kills
	NoCrash bool `json:"nocrash"`
}

func init() { commands["crash"] = cmdCrash }

type crashRun struct {
	Tr       int      `json:"tr"`
	Scenario string   `json:"scenario"`
	Mode     string   `json:"mode"` // dry | crash | error
	K        int      `json:"k"`
	Before   string   `json:"before"`
	Calls    []string `json:"calls"`
}

// runCrash executes one (scenario, mode, k). k < 0: dry run (no fault).
func runCrash(scn CrashScenario, tmpl, dir string, tr int, seed int64, mode string, k int) ([]world.Event, crashRun, error) {
	info := crashRun{Tr: tr, Scenario: scn.Name, Mode: mode, K: k}
	os.RemoveAll(dir)
	defer os.RemoveAll(dir)
	w, err := world.New(world.Options{Dir: dir, FeePpk: scn.Fee, FeeReserve: scn.Policy, Seed: seed, TemplateDir: tmpl, WithServer: scn.HTTP})
	if err != nil {
		return nil, info, err
	}
	w.ViaHTTP = scn.HTTP
	w.Tr = tr
	w.EmitInit(map[string]any{"fee": int(scn.Fee), "mpp": false, "policy": scn.Policy, "scenario": scn.Name, "mode": mode, "k": k,
		"limits": map[string]any{"maxbal": 0, "maxmint": 0, "maxmelt": 0}})
	for _, op := range scn.Prefix {
		w.Exec(op)
	}
	crashAt, errAt := -1, -1
	switch mode {
	case "crash":
		crashAt = k
	case "error":
		errAt = k
	}
	w.Inline = true
	w.Fault = mode == "error"
	p := w.Ctl.Spawn("victim", false, crashAt, errAt, func() { w.Exec(scn.Victim) })
	frozen, err := w.Ctl.RunToEnd(p, 20*time.Second)
	if err != nil {
		w.Ctl.Kill()
		w.Abandon()
		return nil, info, err
	}
	info.Calls = w.Ctl.CallsOf(p)
	w.Inline = false
	w.Fault = false
	cur := w
	if frozen {
		info.Before = nth(info.Calls, k)
		// the process is dead: nothing of it runs any more, the store is closed underneath it
		w.Ctl.Kill()
		time.Sleep(2 * time.Millisecond)
		w.Abandon()
		n, lerr, pan, msg := w.Reborn(false, scn.Fee)
		ok := lerr == nil && !pan
		detail := ""
		if lerr != nil {
			detail = lerr.Error()
		}
		if pan {
			detail = "panic: " + msg
		}
		if !ok {
			// the mint cannot start any more: record that and stop
			n.NoPost = true
			n.EmitCrash(w, k, info.Before, false, detail)
			return n.Events, info, nil
		}
		n.EmitCrash(w, k, info.Before, true, "")
		cur = n
	} else if mode == "error" {
		info.Before = nth(info.Calls, k)
	}
	for _, op := range scn.Followup {
		cur.Exec(op)
	}
	evs := cur.Events
	cur.Close()
	return evs, info, nil
}

func cmdCrash(args []string) int {
	fs := flag.NewFlagSet("crash", flag.ExitOnError)
	in := fs.String("in", "", "crash scenarios json (array)")
	outDir := fs.String("out", "", "output directory")
	scratch := fs.String("scratch", "/dev/shm/verif-crash", "scratch dir")
	seed := fs.Int64("seed", 1, "seed")
	workers := fs.Int("workers", 12, "parallel executions")
	fs.Parse(args)
	data, err := os.ReadFile(*in)
	if err != nil {
		fmt.Fprintln(os.Stderr, err)
		return 2
	}
	var scns []CrashScenario
	if err := json.Unmarshal(data, &scns); err != nil {
		fmt.Fprintln(os.Stderr, "bad scenarios:", err)
		return 2
	}
	os.MkdirAll(*scratch, 0o755)
	defer os.RemoveAll(*scratch)
	os.MkdirAll(*outDir, 0o755)
	type job struct {
		scn  CrashScenario
		mode string
		k    int
		tr   int
	}
	var jobs []job
	tr := 0
	var runs []crashRun
	var all []world.Event
	// dry runs first: count the calls of every victim
	for _, scn := range scns {
		tmpl, err := makeTemplate(*scratch, scn.Fee)
		if err != nil {
			fmt.Fprintln(os.Stderr, "template:", err)
			return 2
		}
		tr++
		evs, info, err := runCrash(scn, tmpl, filepath.Join(*scratch, fmt.Sprintf("dry%d", tr)), tr, *seed, "dry", -1)
		if err != nil {
			fmt.Fprintf(os.Stderr, "dry run of %s failed: %v\n", scn.Name, err)
			return 2
		}
		runs = append(runs, info)
		all = append(all, evs...)
		for k := 0; k < len(info.Calls); k++ {
			if !scn.NoCrash {
				tr++
				jobs = append(jobs, job{scn, "crash", k, tr})
			}
			if scn.Errors {
				tr++
				jobs = append(jobs, job{scn, "error", k, tr})
			}
		}
	}
	results := make([][]world.Event, len(jobs))
	infos := make([]crashRun, len(jobs))
	errs := make([]error, len(jobs))
	var wg sync.WaitGroup
	sem := make(chan struct{}, *workers)
	for i := range jobs {
		wg.Add(1)
		sem <- struct{}{}
		go func(i int) {
			defer wg.Done()
			defer func() { <-sem }()
			j := jobs[i]
			tmpl, _ := makeTemplate(*scratch, j.scn.Fee)
			results[i], infos[i], errs[i] = runCrash(j.scn, tmpl, filepath.Join(*scratch, fmt.Sprintf("c%d", j.tr)), j.tr, *seed, j.mode, j.k)
		}(i)
	}
	wg.Wait()
	for i := range jobs {
		if errs[i] != nil {
			fmt.Fprintf(os.Stderr, "%s %s k=%d: driver error: %v\n", jobs[i].scn.Name, jobs[i].mode, jobs[i].k, errs[i])
			return 2
		}
		all = append(all, results[i]...)
		runs = append(runs, infos[i])
	}
	os.Remove(filepath.Join(*outDir, "crash.ndjson"))
	if err := world.WriteTrace(filepath.Join(*outDir, "crash.ndjson"), all); err != nil {
		fmt.Fprintln(os.Stderr, err)
		return 2
	}
	b, _ := json.Marshal(runs)
	os.WriteFile(filepath.Join(*outDir, "runs.json"), b, 0o644)
	fmt.Printf("scenarios=%d executions=%d events=%d\n", len(scns), len(runs), len(all))
	return 0
}

// nth names call k as label#occurrence (the second UpdateMintQuoteState of an operation is not the first).
func nth(calls []string, k int) string {
	if k < 0 || k >= len(calls) {
		return ""
	}
	n := 0
	for i := 0; i <= k; i++ {
		if calls[i] == calls[k] {
			n++
		}
	}
	return fmt.Sprintf("%s#%d", calls[k], n)
}
