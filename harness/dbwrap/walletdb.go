package dbwrap

import (
	"sync"

	"github.com/elnosh/gonuts/cashu"
	"github.com/elnosh/gonuts/crypto"
	"github.com/elnosh/gonuts/wallet/storage"
)

// WalletDB wraps a wallet store. Calls whose signature has no error result cannot have an
// error injected; for those an injected error is ignored (the call is performed).
type WalletDB struct {
	Inner storage.WalletDB
	Sched Sched
	mu    sync.Mutex
	Log   []CallRec
	// Observe is called with every proof set saved (to learn blinding factors).
	Observe func(name string, proofs cashu.Proofs)
}

func (w *WalletDB) pre(name string) error {
	if w.Sched != nil {
		return w.Sched.Point("wdb", name)
	}
	return nil
}

func (w *WalletDB) post(name string, err error) {
	w.mu.Lock()
	w.Log = append(w.Log, CallRec{Name: name, Err: err != nil})
	w.mu.Unlock()
}

func (w *WalletDB) TakeLog() []CallRec {
	w.mu.Lock()
	defer w.mu.Unlock()
	l := w.Log
	w.Log = nil
	return l
}

func (w *WalletDB) Close() error { return w.Inner.Close() }

func (w *WalletDB) SaveMnemonicSeed(m string, s []byte) {
	_ = w.pre("SaveMnemonicSeed")
	w.Inner.SaveMnemonicSeed(m, s)
	w.post("SaveMnemonicSeed", nil)
}

func (w *WalletDB) GetSeed() []byte {
	_ = w.pre("GetSeed")
	r := w.Inner.GetSeed()
	w.post("GetSeed", nil)
	return r
}

func (w *WalletDB) GetMnemonic() string {
	_ = w.pre("GetMnemonic")
	r := w.Inner.GetMnemonic()
	w.post("GetMnemonic", nil)
	return r
}

func (w *WalletDB) SaveProofs(p cashu.Proofs) error {
	if err := w.pre("SaveProofs"); err != nil {
		w.post("SaveProofs", err)
		return err
	}
	if w.Observe != nil {
		w.Observe("SaveProofs", p)
	}
	err := w.Inner.SaveProofs(p)
	w.post("SaveProofs", err)
	return err
}

func (w *WalletDB) GetProofs() cashu.Proofs {
	_ = w.pre("GetProofs")
	r := w.Inner.GetProofs()
	w.post("GetProofs", nil)
	return r
}

func (w *WalletDB) GetProofsByKeysetId(id string) cashu.Proofs {
	_ = w.pre("GetProofsByKeysetId")
	r := w.Inner.GetProofsByKeysetId(id)
	w.post("GetProofsByKeysetId", nil)
	return r
}

func (w *WalletDB) DeleteProof(s string) error {
	if err := w.pre("DeleteProof"); err != nil {
		w.post("DeleteProof", err)
		return err
	}
	err := w.Inner.DeleteProof(s)
	w.post("DeleteProof", err)
	return err
}

func (w *WalletDB) AddPendingProofs(p cashu.Proofs) error {
	if err := w.pre("AddPendingProofs"); err != nil {
		w.post("AddPendingProofs", err)
		return err
	}
	if w.Observe != nil {
		w.Observe("AddPendingProofs", p)
	}
	err := w.Inner.AddPendingProofs(p)
	w.post("AddPendingProofs", err)
	return err
}

func (w *WalletDB) AddPendingProofsByQuoteId(p cashu.Proofs, q string) error {
	if err := w.pre("AddPendingProofsByQuoteId"); err != nil {
		w.post("AddPendingProofsByQuoteId", err)
		return err
	}
	if w.Observe != nil {
		w.Observe("AddPendingProofsByQuoteId", p)
	}
	err := w.Inner.AddPendingProofsByQuoteId(p, q)
	w.post("AddPendingProofsByQuoteId", err)
	return err
}

func (w *WalletDB) GetPendingProofs() []storage.DBProof {
	_ = w.pre("GetPendingProofs")
	r := w.Inner.GetPendingProofs()
	w.post("GetPendingProofs", nil)
	return r
}

func (w *WalletDB) GetPendingProofsByQuoteId(q string) []storage.DBProof {
	_ = w.pre("GetPendingProofsByQuoteId")
	r := w.Inner.GetPendingProofsByQuoteId(q)
	w.post("GetPendingProofsByQuoteId", nil)
	return r
}

func (w *WalletDB) DeletePendingProofs(ys []string) error {
	if err := w.pre("DeletePendingProofs"); err != nil {
		w.post("DeletePendingProofs", err)
		return err
	}
	err := w.Inner.DeletePendingProofs(ys)
	w.post("DeletePendingProofs", err)
	return err
}

func (w *WalletDB) DeletePendingProofsByQuoteId(q string) error {
	if err := w.pre("DeletePendingProofsByQuoteId"); err != nil {
		w.post("DeletePendingProofsByQuoteId", err)
		return err
	}
	err := w.Inner.DeletePendingProofsByQuoteId(q)
	w.post("DeletePendingProofsByQuoteId", err)
	return err
}

func (w *WalletDB) SaveKeyset(k *crypto.WalletKeyset) error {
	if err := w.pre("SaveKeyset"); err != nil {
		w.post("SaveKeyset", err)
		return err
	}
	err := w.Inner.SaveKeyset(k)
	w.post("SaveKeyset", err)
	return err
}

func (w *WalletDB) GetKeysets() crypto.KeysetsMap {
	_ = w.pre("GetKeysets")
	r := w.Inner.GetKeysets()
	w.post("GetKeysets", nil)
	return r
}

func (w *WalletDB) GetKeyset(id string) *crypto.WalletKeyset {
	_ = w.pre("GetKeyset")
	r := w.Inner.GetKeyset(id)
	w.post("GetKeyset", nil)
	return r
}

func (w *WalletDB) IncrementKeysetCounter(id string, n uint32) error {
	if err := w.pre("IncrementKeysetCounter"); err != nil {
		w.post("IncrementKeysetCounter", err)
		return err
	}
	err := w.Inner.IncrementKeysetCounter(id, n)
	w.post("IncrementKeysetCounter", err)
	return err
}

func (w *WalletDB) GetKeysetCounter(id string) uint32 {
	_ = w.pre("GetKeysetCounter")
	r := w.Inner.GetKeysetCounter(id)
	w.post("GetKeysetCounter", nil)
	return r
}

func (w *WalletDB) UpdateKeysetMintURL(o, n string) error {
	if err := w.pre("UpdateKeysetMintURL"); err != nil {
		w.post("UpdateKeysetMintURL", err)
		return err
	}
	err := w.Inner.UpdateKeysetMintURL(o, n)
	w.post("UpdateKeysetMintURL", err)
	return err
}

func (w *WalletDB) SaveMintQuote(q storage.MintQuote) error {
	if err := w.pre("SaveMintQuote"); err != nil {
		w.post("SaveMintQuote", err)
		return err
	}
	err := w.Inner.SaveMintQuote(q)
	w.post("SaveMintQuote", err)
	return err
}

func (w *WalletDB) GetMintQuotes() []storage.MintQuote {
	_ = w.pre("GetMintQuotes")
	r := w.Inner.GetMintQuotes()
	w.post("GetMintQuotes", nil)
	return r
}

func (w *WalletDB) GetMintQuoteById(id string) *storage.MintQuote {
	_ = w.pre("GetMintQuoteById")
	r := w.Inner.GetMintQuoteById(id)
	w.post("GetMintQuoteById", nil)
	return r
}

func (w *WalletDB) SaveMeltQuote(q storage.MeltQuote) error {
	if err := w.pre("SaveMeltQuote"); err != nil {
		w.post("SaveMeltQuote", err)
		return err
	}
	err := w.Inner.SaveMeltQuote(q)
	w.post("SaveMeltQuote", err)
	return err
}

func (w *WalletDB) GetMeltQuotes() []storage.MeltQuote {
	_ = w.pre("GetMeltQuotes")
	r := w.Inner.GetMeltQuotes()
	w.post("GetMeltQuotes", nil)
	return r
}

func (w *WalletDB) GetMeltQuoteById(id string) *storage.MeltQuote {
	_ = w.pre("GetMeltQuoteById")
	r := w.Inner.GetMeltQuoteById(id)
	w.post("GetMeltQuoteById", nil)
	return r
}

var _ storage.WalletDB = (*WalletDB)(nil)
