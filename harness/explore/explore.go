// Package explore enumerates interleavings of concurrent requests on the real mint at the
// granularity of one storage call or one Lightning call (stateless depth-first search with
// replay and sleep sets), recording for each execution the call/return order and replies of the
// requests plus the final projection, for the linearizability search done by TLC (MintAccept).
package explore

import (
	"fmt"
	"os"
	"path/filepath"
	"sort"
	"strings"
	"sync"
	"sync/atomic"
	"time"

	"verif/harness/sched"
	"verif/harness/world"
)

type Scenario struct {
	Name   string     `json:"name"`
	Prop   string     `json:"prop"`
	Fee    uint       `json:"fee"`
	Policy string     `json:"policy"`
	Prefix []world.Op `json:"prefix"`
	Conc   []world.Op `json:"conc"`
	Post   []world.Op `json:"post"`
	// Schedules: instead of enumerating interleavings, run exactly these (each a sequence of proc names, one per step;
	// when it is used up the first enabled proc runs). For windows that need more requests than the enumeration can afford.
	Schedules [][]string `json:"schedules,omitempty"`
	// LateAnswers: Lightning answers are delivered at a scheduling point of their own (lnmodel.Node.LateAnswers).
	LateAnswers bool `json:"lateanswers,omitempty"`
	// Lenient: a step of a fixed schedule whose proc is not enabled is replaced by the first enabled proc.
	Lenient bool `json:"lenient,omitempty"`
	// From: the enumeration starts after these choices (one proc name per step): every completion of this prefix is explored.
	From []string `json:"from,omitempty"`
}

type Step struct {
	Enabled []string
	Labels  map[string]string
	Sleep   map[string]string
	Chosen  string
}

type Result struct {
	Steps   []Step
	Events  []world.Event
	Blocked bool
	Err     error
}

// ---- independence of two call labels ----

type access struct {
	res string
	w   bool
}

var accesses = map[string][]access{
	"db:SaveProofs": {{"proofs", true}}, "db:GetProofsUsed": {{"proofs", false}},
	"db:AddPendingProofs": {{"pending", true}}, "db:RemovePendingProofs": {{"pending", true}},
	"db:GetPendingProofs": {{"pending", false}}, "db:GetPendingProofsByQuote": {{"pending", false}},
	"db:SaveBlindSignatures": {{"sigs", true}}, "db:GetBlindSignature": {{"sigs", false}}, "db:GetBlindSignatures": {{"sigs", false}},
	"db:SaveMintQuote": {{"mq", true}}, "db:UpdateMintQuoteState": {{"mq", true}},
	"db:GetMintQuote": {{"mq", false}}, "db:GetMintQuoteByPaymentHash": {{"mq", false}},
	"db:SaveMeltQuote": {{"lq", true}}, "db:UpdateMeltQuote": {{"lq", true}},
	"db:GetMeltQuote": {{"lq", false}}, "db:GetMeltQuoteByPaymentRequest": {{"lq", false}},
	"db:GetIssuedEcash": {{"sigs", false}}, "db:GetRedeemedEcash": {{"proofs", false}},
	"db:GetSeed": {{"seed", false}}, "db:SaveSeed": {{"seed", true}},
	"db:GetKeysets": {{"ks", false}}, "db:SaveKeyset": {{"ks", true}}, "db:UpdateKeysetActive": {{"ks", true}},
	"ln:InvoiceStatus": {{"lninv", false}}, "ln:CreateInvoice": {{"lninv", true}},
	"ln:SendPayment": {{"lnpay", true}, {"lninv", true}}, "ln:PayPartialAmount": {{"lnpay", true}, {"lninv", true}},
	"ln:OutgoingPaymentStatus": {{"lnpay", true}, {"lninv", true}},
	"env:notify":               {},
}

func independent(a, b string) bool {
	aa, ok1 := accesses[a]
	bb, ok2 := accesses[b]
	if !ok1 || !ok2 {
		return false
	}
	for _, x := range aa {
		for _, y := range bb {
			if x.res == y.res && (x.w || y.w) {
				return false
			}
		}
	}
	return true
}

type envStep struct {
	name  string
	op    world.Op
	fired bool
	bg    *sched.Proc
	c     int64
	done  bool
}

// RunOne executes the scenario once, following choices and then a default policy that avoids
// sleeping procs.  sleep is the sleep set at the node reached after choices.
func RunOne(scn Scenario, tmpl, dir string, tr int, seed int64, choices []string, sleep map[string]string) (res *Result) {
	res = &Result{}
	os.RemoveAll(dir)
	defer os.RemoveAll(dir)
	w, err := world.New(world.Options{Dir: dir, FeePpk: scn.Fee, FeeReserve: scn.Policy, Seed: seed, TemplateDir: tmpl})
	if err != nil {
		res.Err = err
		return
	}
	defer func() {
		w.Ctl.Kill()
		w.Abandon()
	}()
	w.Tr = tr
	w.EmitInit(map[string]any{"fee": int(scn.Fee), "mpp": false, "policy": scn.Policy, "scenario": scn.Name, "prop": scn.Prop,
		"limits": map[string]any{"maxbal": 0, "maxmint": 0, "maxmelt": 0}})
	w.NoPost = true
	for _, op := range scn.Prefix {
		w.Exec(op)
	}
	// concurrent segment
	w.Conc = true
	w.Node.LateAnswers = scn.LateAnswers
	w.Ctl.GateBg = true
	procs := map[string]*sched.Proc{}
	lockBlocked := map[string]bool{}
	var order []string
	var envs []*envStep
	const wait = 45 * time.Second // generous: under a loaded machine a storage call can wait long for the single SQLite connection
	// a request that has not started yet is a schedulable step of its own ("start"), dependent
	// on everything: which request enters a critical section first is explored too
	type starter struct {
		name string
		op   world.Op
	}
	var unstarted []starter
	for i, op := range scn.Conc {
		if op.Op == "notify" {
			envs = append(envs, &envStep{name: fmt.Sprintf("n%d", i+1), op: op})
			continue
		}
		unstarted = append(unstarted, starter{fmt.Sprintf("p%d", i+1), op})
	}
	start := func(st starter) error {
		name, op := st.name, st.op
		p := w.Ctl.Spawn(name, true, -1, -1, func() {
			w.SetProc(name)
			w.Exec(op)
		})
		procs[name] = p
		order = append(order, name)
		if _, _, lk, err := w.Ctl.AwaitL(p, wait); err != nil {
			return err
		} else if lk {
			lockBlocked[name] = true
		}
		return nil
	}
	// a notification whose watcher goroutine has not reached its first storage call yet (it may be waiting for a mutex that a
	// request holds): it is adopted as a proc whenever it arrives
	outstanding := func() bool {
		for _, e := range envs {
			if e.fired && !e.done && e.bg == nil {
				return true
			}
		}
		return false
	}
	adopt := func(d time.Duration) (bool, error) {
		if !outstanding() {
			return false, nil
		}
		select {
		case bp := <-w.Ctl.BgArrived:
			for _, e := range envs {
				if e.fired && !e.done && e.bg == nil {
					e.bg = bp
					break
				}
			}
			procs[bp.Name] = bp
			order = append(order, bp.Name)
			if _, _, lk, err := w.Ctl.AwaitL(bp, wait); err != nil {
				return false, err
			} else if lk {
				lockBlocked[bp.Name] = true
			}
			return true, nil
		case <-time.After(d):
			return false, nil
		}
	}
	pendingOf := func(p *sched.Proc) string { return p.Pending }
	cur := map[string]string{}
	for k, v := range sleep {
		cur[k] = v
	}
	step := 0
	settle := 0
	diverge := 0 // waiting for the proc a recorded schedule names next
	for {
		if _, err := adopt(0); err != nil {
			res.Err = err
			return
		}
		// procs that were waiting for a lock may have reached a call boundary by now
		for _, name := range order {
			if lockBlocked[name] {
				if w.Ctl.StillLocked(procs[name]) {
					continue
				}
				if _, _, lk, err := w.Ctl.AwaitL(procs[name], wait); err != nil {
					res.Err = err
					return
				} else if !lk {
					delete(lockBlocked, name)
				}
			}
		}
		var enabled []string
		labels := map[string]string{}
		for _, name := range order {
			p := procs[name]
			if !p.Done && pendingOf(p) != "" {
				enabled = append(enabled, name)
				labels[name] = pendingOf(p)
			}
		}
		for _, st := range unstarted {
			enabled = append(enabled, st.name)
			labels[st.name] = "start:" + st.op.Op
		}
		for _, e := range envs {
			if !e.fired {
				enabled = append(enabled, e.name)
				labels[e.name] = "env:notify"
			}
		}
		if len(enabled) == 0 {
			if outstanding() {
				// the watcher of a fired notification is still on its way (it was waiting for a mutex, or is just slow)
				if got, err := adopt(2 * time.Second); err != nil {
					res.Err = err
					return
				} else if got {
					continue
				}
				// it never arrives: the notification found nothing to do
				for _, e := range envs {
					if e.fired && !e.done && e.bg == nil {
						e.done = true
						w.EmitSpan("notify", map[string]any{"q": e.op.Q, "fired": 1}, map[string]any{"ok": true}, e.c, w.Tick(), e.name)
					}
				}
				continue
			}
			if len(lockBlocked) > 0 {
				// nothing can move: either a real deadlock, or a proc that was only briefly waiting
				// (for a lock of the harness or the driver) when it was classified. Give it time.
				if settle < 40 {
					settle++
					time.Sleep(time.Duration(settle) * time.Millisecond)
					continue
				}
				res.Err = fmt.Errorf("deadlock: procs %v wait for a lock and nothing else can move", lockBlocked)
				return
			}
			break
		}
		settle = 0
		chosen := ""
		if step < len(choices) {
			chosen = choices[step]
			found := false
			for _, e := range enabled {
				if e == chosen {
					found = true
				}
			}
			if !found {
				// a watcher that arrived earlier in the recorded run may still be on its way in this one
				if _, ok := procs[chosen]; !ok && outstanding() && diverge < 40 {
					diverge++
					if _, err := adopt(500 * time.Millisecond); err != nil {
						res.Err = err
						return
					}
					continue
				}
				// the proc may be about to arrive (it was briefly waiting for a harness lock): wait for it
				waitLimit := 240 // strict replay of a prefix: on a loaded machine the proc may take seconds to arrive (about 5 s in all)
				if scn.Lenient {
					waitLimit = 4 // a lenient schedule names requests that the code may rightly keep waiting (a lock): do not wait long for them
				}
				if p, ok := procs[chosen]; ok && !p.Done && diverge < waitLimit {
					diverge++
					pause := diverge
					if pause > 25 {
						pause = 25
					}
					time.Sleep(time.Duration(pause) * time.Millisecond)
					lockBlocked[chosen] = true
					continue
				}
				if scn.Lenient && len(scn.Schedules) > 0 && len(enabled) > 0 {
					// a fixed schedule kept as a regression test: where the code no longer allows the step
					// (the window it walked into has been closed) the first enabled proc runs instead
					chosen = enabled[0]
				} else {
					res.Err = fmt.Errorf("schedule diverged at step %d: %s not enabled (enabled %v)", step, chosen, enabled)
					return
				}
			}
		} else {
			if step == len(choices) {
				// the sleep set handed in applies from here on
			}
			for _, e := range enabled {
				if _, asleep := cur[e]; !asleep {
					chosen = e
					break
				}
			}
			if chosen == "" {
				res.Blocked = true
				return
			}
		}
		diverge = 0
		sl := map[string]string{}
		if step >= len(choices) {
			for k, v := range cur {
				sl[k] = v
			}
		}
		res.Steps = append(res.Steps, Step{Enabled: enabled, Labels: labels, Sleep: sl, Chosen: chosen})
		if step >= len(choices) {
			for k, v := range cur {
				if !independent(v, labels[chosen]) {
					delete(cur, k)
				}
			}
		}
		// execute the chosen step
		startedNow := false
		for k, st := range unstarted {
			if st.name == chosen {
				unstarted = append(unstarted[:k:k], unstarted[k+1:]...)
				if err := start(st); err != nil {
					res.Err = err
					return
				}
				startedNow = true
				break
			}
		}
		if startedNow {
			// nothing else to do for this step
		} else if p, ok := procs[chosen]; ok {
			w.Ctl.Grant(p, nil)
			if _, done, lk, err := w.Ctl.AwaitL(p, wait); err != nil {
				res.Err = err
				return
			} else if lk {
				lockBlocked[chosen] = true
			} else if done && p.Bg {
				for _, e := range envs {
					if e.bg == p && !e.done {
						e.done = true
						w.EmitSpan("notify", map[string]any{"q": e.op.Q, "fired": 1}, map[string]any{"ok": true}, e.c, w.Tick(), e.name)
					}
				}
			}
		} else {
			for _, e := range envs {
				if e.name != chosen {
					continue
				}
				e.fired = true
				e.c = w.Tick()
				q := w.Reg.MintQ[e.op.Q]
				n := 0
				if q != nil {
					n = w.Net.Notify(q.Hash)
				}
				if n > 0 {
					// normally the watcher reaches its first storage call at once; if a request holds the mutex it needs, it
					// arrives when that request lets go (adopted then)
					if _, err := adopt(40 * time.Millisecond); err != nil {
						res.Err = err
						return
					}
				} else {
					e.done = true
					w.EmitSpan("notify", map[string]any{"q": e.op.Q, "fired": 0}, map[string]any{"ok": true}, e.c, w.Tick(), e.name)
				}
			}
		}
		step++
		if step > 400 {
			res.Err = fmt.Errorf("execution too long")
			return
		}
	}
	for _, name := range order {
		if !procs[name].Done {
			res.Err = fmt.Errorf("proc %s neither blocked nor done", name)
			return
		}
	}
	w.Conc = false
	w.Node.LateAnswers = false
	w.Ctl.GateBg = false
	w.NoPost = false
	w.Exec(world.Op{Op: "sync"})
	w.NoPost = true
	for _, op := range scn.Post {
		w.Exec(op)
	}
	res.Events = w.Events
	return
}

type item struct {
	choices []string
	sleep   map[string]string
}

type Stats struct {
	Executions int64
	Blocked    int64
	Complete   bool
	MaxSteps   int
}

// Explore enumerates the interleavings of one scenario (sleep-set reduced), up to maxExec
// executions, and calls emit with the events of every complete execution.
func Explore(scn Scenario, tmpl, scratch string, seed int64, workers, maxExec int, nextTr *int64, emit func(tr int, evs []world.Event, schedule []string)) (Stats, error) {
	var st Stats
	if len(scn.Schedules) > 0 {
		for _, choices := range scn.Schedules {
			tr := int(atomic.AddInt64(nextTr, 1))
			r := RunOne(scn, tmpl, filepath.Join(scratch, fmt.Sprintf("s%d", tr)), tr, seed, choices, nil)
			if r.Err != nil {
				return st, fmt.Errorf("scenario %s schedule %v: %v", scn.Name, choices, r.Err)
			}
			st.Executions++
			if len(r.Steps) > st.MaxSteps {
				st.MaxSteps = len(r.Steps)
			}
			sched := make([]string, len(r.Steps))
			for i, s := range r.Steps {
				sched[i] = s.Chosen + ":" + s.Labels[s.Chosen]
			}
			emit(tr, r.Events, sched)
		}
		st.Complete = true
		return st, nil
	}
	var mu sync.Mutex
	stack := []item{{choices: scn.From}}
	active := 0
	var firstErr error
	cond := sync.NewCond(&mu)
	var wg sync.WaitGroup
	capped := false
	for wi := 0; wi < workers; wi++ {
		wg.Add(1)
		go func(wi int) {
			defer wg.Done()
			for {
				mu.Lock()
				for len(stack) == 0 && active > 0 && firstErr == nil {
					cond.Wait()
				}
				if firstErr != nil || (len(stack) == 0 && active == 0) {
					mu.Unlock()
					cond.Broadcast()
					return
				}
				if int(st.Executions) >= maxExec {
					capped = true
					stack = nil
					mu.Unlock()
					cond.Broadcast()
					if active == 0 {
						return
					}
					mu.Lock()
					for active > 0 {
						cond.Wait()
					}
					mu.Unlock()
					return
				}
				it := stack[len(stack)-1]
				stack = stack[:len(stack)-1]
				active++
				st.Executions++
				mu.Unlock()
				tr := int(atomic.AddInt64(nextTr, 1))
				dir := filepath.Join(scratch, fmt.Sprintf("x%d-%d", wi, tr))
				r := RunOne(scn, tmpl, dir, tr, seed, it.choices, it.sleep)
				mu.Lock()
				active--
				if r.Err != nil {
					if firstErr == nil {
						firstErr = fmt.Errorf("scenario %s schedule %v: %v", scn.Name, it.choices, r.Err)
					}
					mu.Unlock()
					cond.Broadcast()
					return
				}
				if r.Blocked {
					st.Blocked++
				}
				if len(r.Steps) > st.MaxSteps {
					st.MaxSteps = len(r.Steps)
				}
				// alternatives along the newly discovered part of the path
				for d := len(it.choices); d < len(r.Steps); d++ {
					sd := r.Steps[d]
					explored := []string{sd.Chosen}
					for _, e := range sd.Enabled {
						if e == sd.Chosen {
							continue
						}
						if _, asleep := sd.Sleep[e]; asleep {
							continue
						}
						ns := map[string]string{}
						for k, v := range sd.Sleep {
							if independent(v, sd.Labels[e]) {
								ns[k] = v
							}
						}
						for _, x := range explored {
							if independent(sd.Labels[x], sd.Labels[e]) {
								ns[x] = sd.Labels[x]
							}
						}
						ch := make([]string, 0, d+1)
						for k := 0; k < d; k++ {
							ch = append(ch, r.Steps[k].Chosen)
						}
						ch = append(ch, e)
						stack = append(stack, item{choices: ch, sleep: ns})
						explored = append(explored, e)
					}
				}
				mu.Unlock()
				cond.Broadcast()
				if !r.Blocked {
					sch := make([]string, len(r.Steps))
					for k := range r.Steps {
						sch[k] = r.Steps[k].Chosen + ":" + r.Steps[k].Labels[r.Steps[k].Chosen]
					}
					emit(tr, r.Events, sch)
				}
			}
		}(wi)
	}
	wg.Wait()
	st.Complete = !capped && firstErr == nil
	return st, firstErr
}

func ScheduleString(s []string) string { return strings.Join(s, " ") }

var _ = sort.Strings
