#!/bin/sh
# tools/collect_seed.sh <seeded-id> <worktree> <property> "<needs>" "<demo cmd>"
set -e
id=$1; wt=$2; prop=$3; needs=$4; demo=$5
d=/verif/seeded/$id
mkdir -p $d/demo
cp $wt/seeded.patch $d/patch.diff
[ -f $wt/DEMO.md ] && cp $wt/DEMO.md $d/demo/DEMO.md
(cd $wt && git status --short | grep '^??' | awk '{print $2}' | grep -v -e seeded.patch -e DEMO.md | while read f; do mkdir -p $d/demo/$(dirname $f); cp -r $f $d/demo/$f; done)
python3 - "$id" "$prop" "$needs" "$demo" <<'PY' > $d/meta.json
import json,sys
print(json.dumps({"id":sys.argv[1],"property":sys.argv[2],"origin":"written by an independent sub-agent given only the property text",
 "needs":sys.argv[3],"demonstration":"demo/ (files relative to the repository root); command: "+sys.argv[4],
 "confirmed":"build ok, existing suite passes with the change, demo fails with it and passes without it (re-run by the main session in the scratch worktree)",
 "ran":"git -C /repo apply patch.diff; ./check "+sys.argv[2]+"; git -C /repo checkout -- ."},indent=1))
PY
echo collected $d; ls -R $d | head -20
