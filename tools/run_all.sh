#!/bin/sh
# tools/run_all.sh [parallelism]: run every registered quick (or $VERIF_TIER) check on the current tree; summary per property.
cd "$(dirname "$0")/.."
P=${1:-4}
mkdir -p out/all
ids=$(python3 -c "import json;print(' '.join(c['property_id'] for c in json.load(open('MANIFEST.json'))['checks']))")
echo $ids | tr ' ' '\n' | xargs -P $P -I{} sh -c 'start=$(date +%s); ./check {} > out/all/{}.log 2>&1; rc=$?; echo "{} rc=$rc $(( $(date +%s) - start ))s viol=$(grep -c "^VIOLATION" out/all/{}.log) known=$(grep -c "^KNOWN-FINDING" out/all/{}.log)"'
