#!/bin/sh
# tools/seed_from_fix.sh <fix-commit> <seeded-id> <property> "<needs>"
# The reverse of a "fix:" commit is a seeded change: re-introducing the defect must be detected.
set -e
c=$1; id=$2; prop=$3; needs=$4
d=/verif/seeded/$id
mkdir -p $d
git -C /repo diff $c $c~1 > $d/patch.diff
cat > $d/meta.json <<EOM
{"id": "$id", "property": "$prop", "origin": "reverse of fix commit $c ($(git -C /repo log -1 --format=%s $c | sed 's/"/\\"/g'))",
 "needs": "$needs", "demonstration": "the check itself: ./check $prop alarms with the patch applied and passes without it",
 "ran": "git -C /repo apply $d/patch.diff && ./check $prop; git -C /repo checkout -- ."}
EOM
echo wrote $d
