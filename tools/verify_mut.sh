#!/bin/sh
# tools/verify_mut.sh <worktree> <demo go test args...>: confirm a seeded change: build ok, suite passes with it (demo skipped),
# demo fails with it, demo passes without it.  Leaves the change applied.
wt=$1; shift
cd $wt || exit 2
export GOFLAGS=-mod=mod GOPROXY=off
git diff --quiet -- . ':!seeded.patch' && { echo "no change applied"; exit 2; }
go build ./... || { echo "BUILD FAILS"; exit 1; }
echo "== suite with change (demo skipped)"; go test -vet=off -count=1 -skip 'TestSeeded' ./... 2>&1 | grep -v "no test files" | grep -v "^ok" ; echo "suite done"
echo "== demo with change"; go test -vet=off -count=1 "$@" 2>&1 | tail -4
git diff > /tmp/.vm.patch; git apply -R /tmp/.vm.patch
echo "== demo without change"; go test -vet=off -count=1 "$@" 2>&1 | tail -3
git apply /tmp/.vm.patch; rm -f /tmp/.vm.patch
git status --short | head -8
