#!/bin/sh
# tools/run_seeded.sh [<seeded-id> ...]: apply each seeded change to /repo, run the check of the
# property it breaks, undo the change.  Prints one line per seed: DETECTED / MISSED / INFRA.
cd "$(dirname "$0")/.."
R=${VERIF_REPO:-/repo}   # a background sweep may point at a snapshot of the repository
V=$(pwd)
ids="$@"; [ -z "$ids" ] && ids=$(ls seeded)
for id in $ids; do
  prop=$(python3 -c "import json;m=json.load(open('seeded/$id/meta.json'));print(m.get('check',m['property']))")
  if python3 -c "import json,sys;sys.exit(0 if json.load(open('seeded/$id/meta.json')).get('obsolete') else 1)"; then echo "$id $prop OBSOLETE (no longer breaks the property on the current tree, see meta.json)"; continue; fi
  if ! git -C $R apply --check $V/seeded/$id/patch.diff 2>/dev/null; then echo "$id $prop PATCH-DOES-NOT-APPLY"; continue; fi
  git -C $R apply $V/seeded/$id/patch.diff
  mkdir -p out/seeded
  t=$(python3 -c "import json;print(json.load(open('seeded/$id/meta.json')).get('tier','${VERIF_TIER:-quick}'))")
  VERIF_TIER=$t ./check $prop > out/seeded/$id.log 2>&1; rc=$?
  git -C $R apply -R $V/seeded/$id/patch.diff
  case $rc in 1) r=DETECTED;; 0) r=MISSED;; *) r=INFRA;; esac
  line="$id $prop $r $(grep -m2 'finding:' out/seeded/$id.log | tr '\n' ' ')"
  echo "$line"; echo "$line" >> out/seeded_results.txt
done
