#!/bin/sh
# tools/run_seeded.sh [<seeded-id> ...]: apply each seeded change to /repo, run the check of the
# property it breaks, undo the change.  Prints one line per seed: DETECTED / MISSED / INFRA.
cd /verif
ids="$@"; [ -z "$ids" ] && ids=$(ls seeded)
for id in $ids; do
  prop=$(python3 -c "import json;m=json.load(open('seeded/$id/meta.json'));print(m.get('check',m['property']))")
  if ! git -C /repo apply --check /verif/seeded/$id/patch.diff 2>/dev/null; then echo "$id $prop PATCH-DOES-NOT-APPLY"; continue; fi
  git -C /repo apply /verif/seeded/$id/patch.diff
  mkdir -p out/seeded
  t=$(python3 -c "import json;print(json.load(open('seeded/$id/meta.json')).get('tier','${VERIF_TIER:-quick}'))")
  VERIF_TIER=$t ./check $prop > out/seeded/$id.log 2>&1; rc=$?
  git -C /repo checkout -- . ; git -C /repo clean -fdq
  case $rc in 1) r=DETECTED;; 0) r=MISSED;; *) r=INFRA;; esac
  line="$id $prop $r $(grep -m2 'finding:' out/seeded/$id.log | tr '\n' ' ')"
  echo "$line"; echo "$line" >> out/seeded_results.txt
done
