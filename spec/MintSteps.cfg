SPECIFICATION Spec
CHECK_DEADLOCK FALSE
VIEW View
INVARIANT Inv_NoDoubleUse
INVARIANT Inv_IssueOnce
INVARIANT Inv_Quiet
INVARIANT Inv_CrashReport
