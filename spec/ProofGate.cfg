INIT Init
NEXT Next
