INIT Init
NEXT Next
