----------------------------- MODULE MintJudge -----------------------------
(***************************************************************************)
(* Judging one recorded operation of the real mint against MintAPI:       *)
(* verdict tags, the set of allowed successor states, projection           *)
(* comparison and re-synchronisation.  No variables: shared by the         *)
(* monitor (MintTrace) and the linearizability search (MintAccept).        *)
(***************************************************************************)
EXTENDS MintAPI, Http

-----------------------------------------------------------------------------
(* property attribution of refusal causes                                   *)
CauseProp(c) ==
  CASE c \in {"spent", "pending", "dupin"} -> "C01"
    [] c \in {"overspend", "ovf", "bigout", "overquote", "underfunded"} -> "C02"
    [] c \in {"unpaid", "issued", "mqpending", "nut20", "lnerr"} -> "C03"
    [] c \in {"badC", "badamt", "unknownks", "toolong"} -> "C04"
    [] c \in {"lqpaid", "lqpending"} -> "C05"
    [] c \in {"outinactive", "outunknownks"} -> "C09"
    [] c \in {"lock"} -> "C12"
    [] c \in {"maxmint", "maxbal", "maxmelt", "bigamt"} -> "C16"
    [] OTHER -> "C06"

-----------------------------------------------------------------------------
(* projection comparison and adoption                                       *)

EffSt(st, settled) == IF st = "UNPAID" /\ settled THEN "PAID" ELSE st

ProofsEq(S2, post) ==
  \A s \in DOMAIN post.proofs :
     LET p == post.proofs[s] IN
     /\ p.st = ProofSt(S2, s)
     /\ p.st = "pending" => p.by = S2.proof[s].by
\* the stored witness of a locked / spent proof is the one it was presented with (C15)
WitEq(S2, post) ==
  \A s \in DOMAIN post.proofs :
     LET p == post.proofs[s] IN
     (p.st = ProofSt(S2, s) /\ p.st \in {"pending", "spent"}) => p.wit = S2.proof[s].wit
SigsEq(S2, post) ==
  /\ DOMAIN post.sigs = DOMAIN S2.sig
  /\ \A b \in DOMAIN S2.sig :
       /\ post.sigs[b].ks = S2.sig[b].ks
       /\ post.sigs[b].amt = S2.sig[b].amt
       /\ S2.sig[b].tag \in {"", post.sigs[b].tag}
MqEq(S2, post) ==
  /\ DOMAIN post.mq = DOMAIN S2.mq
  /\ \A q \in DOMAIN S2.mq : EffSt(post.mq[q].st, post.mq[q].settled) = EffMq(S2.mq[q])
LqEq(S2, post) ==
  /\ DOMAIN post.lq = DOMAIN S2.lq
  /\ \A q \in DOMAIN S2.lq : post.lq[q].st = S2.lq[q].st /\ post.lq[q].pre = S2.lq[q].pre
KsEq(S2, post) ==
  /\ DOMAIN post.ks = DOMAIN S2.ks
  /\ \A k \in DOMAIN S2.ks : post.ks[k].active = S2.ks[k].active /\ post.ks[k].fee = S2.ks[k].fee

ProjEq(S2, post) ==
  ProofsEq(S2, post) /\ WitEq(S2, post) /\ SigsEq(S2, post) /\ MqEq(S2, post) /\ LqEq(S2, post) /\ KsEq(S2, post)

Diffs(S2, post) ==
     (IF ProofsEq(S2, post) THEN {} ELSE {"proofs"})
  \cup (IF WitEq(S2, post) THEN {} ELSE {"witness"})
  \cup (IF SigsEq(S2, post) THEN {} ELSE {"sigs"})
  \cup (IF MqEq(S2, post) THEN {} ELSE {"mq"})
  \cup (IF LqEq(S2, post) THEN {} ELSE {"lq"})
  \cup (IF KsEq(S2, post) THEN {} ELSE {"ks"})

\* the spec state re-synchronised on the real projection (ghosts are kept)
Adopt(S2, post) ==
  LET touched == {s \in DOMAIN post.proofs : post.proofs[s].st # "unspent"}
      base(s) == IF s \in DOMAIN S2.proof THEN S2.proof[s]
                 ELSE [sigs |-> {}, st |-> "unspent", by |-> "", wit |-> "none", lock |-> "none", as |-> <<"", 0>>]
      proof2 == [s \in DOMAIN S2.proof \cup touched |->
                   IF s \in DOMAIN post.proofs
                   THEN [base(s) EXCEPT !.st = post.proofs[s].st, !.by = post.proofs[s].by,
                                        !.wit = IF post.proofs[s].st = "unspent" THEN "none" ELSE post.proofs[s].wit]
                   ELSE base(s)]
      sig2 == [b \in DOMAIN post.sigs |->
                 IF b \in DOMAIN S2.sig
                 THEN [S2.sig[b] EXCEPT !.tag = IF @ = "" THEN post.sigs[b].tag ELSE @]
                 ELSE [ks |-> post.sigs[b].ks, amt |-> post.sigs[b].amt, sec |-> post.sigs[b].sec, tag |-> post.sigs[b].tag]]
      \* a signature found in the store makes its secret a holder of value
      proof3 == [s \in DOMAIN proof2 \cup {sig2[b].sec : b \in DOMAIN sig2} |->
                   LET extra == {<<sig2[b].ks, sig2[b].amt>> : b \in {x \in DOMAIN sig2 : sig2[x].sec = s}}
                   IN IF s \in DOMAIN proof2 THEN [proof2[s] EXCEPT !.sigs = @ \cup extra]
                      ELSE [sigs |-> extra, st |-> "unspent", by |-> "", wit |-> "none", lock |-> "none", as |-> <<"", 0>>]]
      mq2 == [q \in DOMAIN S2.mq \cap DOMAIN post.mq |->
                 [S2.mq[q] EXCEPT !.st = post.mq[q].st, !.settled = post.mq[q].settled]]
      lq2 == [q \in DOMAIN S2.lq \cap DOMAIN post.lq |->
                 [S2.lq[q] EXCEPT !.st = post.lq[q].st, !.pre = post.lq[q].pre, !.truth = post.lq[q].truth]]
      ks2 == [k \in DOMAIN post.ks |-> [fee |-> post.ks[k].fee, active |-> post.ks[k].active]]
  IN [S2 EXCEPT !.proof = proof3, !.sig = sig2, !.mq = mq2, !.lq = lq2, !.ks = ks2,
                !.lnin = post.lnin, !.lnout = post.lnout]

-----------------------------------------------------------------------------
(* per-event judgement: [tags, allowed] where tags are <<prop, reason>> and   *)
(* allowed is the set of states MintAPI permits after the step given the     *)
(* observed accept/reject.                                                   *)

Tags(p, rs) == {<<p, r>> : r \in rs}
SigTags(r) == [i \in DOMAIN r.sigs |-> r.sigs[i].tag]

VerdictTags(ok, panic, causes, dontcare, acceptProp) ==
  IF panic THEN {<<"C06", "panic">>}
  ELSE IF ok /\ causes # {} THEN {<<CauseProp(c), "accepted-despite:" \o c>> : c \in causes}
  ELSE IF ~ok /\ causes = {} /\ ~dontcare THEN {<<acceptProp, "refused-without-cause">>}
  ELSE {}

\* which property an unjustified refusal of honest inputs belongs to
InputsAcceptProp(Sx, ins) ==
  IF \E i \in DOMAIN ins : ins[i].ks \in DOMAIN Sx.ks /\ ~Sx.ks[ins[i].ks].active THEN "C09"
  ELSE IF \E i \in DOMAIN ins : ins[i].lock # "none" THEN "C12"
  ELSE "C04"

J(tags, allowed) == [tags |-> tags, allowed |-> allowed]

JudgeSwap(Sx, e) ==
  LET c == SwapCauses(Sx, e.a) IN
  J(VerdictTags(e.r.ok, e.r.panic, c, SwapDontCare(Sx, e.a), InputsAcceptProp(Sx, e.a.ins)),
    IF e.r.ok THEN {SwapEffect(Sx, e.a, SigTags(e.r))} ELSE {Sx})

JudgeMintQuote(Sx, e) ==
  LET c == MintQuoteCauses(Sx, e.a, Balance(Sx)) IN
  J(VerdictTags(e.r.ok, e.r.panic, c, FALSE, "C16"),
    IF e.r.ok THEN {NewMintQuote(Sx, e.r.q, e.a)} ELSE {Sx})

JudgeMint(Sx, e) ==
  LET c == MintCauses(Sx, e.a)
      Ss == IF e.a.q \in DOMAIN Sx.mq THEN SyncMq(Sx, e.a.q, e.a.lnerr) ELSE Sx
  IN J(VerdictTags(e.r.ok, e.r.panic, c, MintDontCare(Sx, e.a), "C03"),
       IF e.r.ok /\ e.a.q \in DOMAIN Sx.mq THEN {MintEffect(Ss, e.a, SigTags(e.r))} ELSE {Sx, Ss})

JudgePollMint(Sx, e) ==
  LET known == e.a.q \in DOMAIN Sx.mq
      Ss == IF known THEN SyncMq(Sx, e.a.q, e.a.lnerr) ELSE Sx
      c == IF ~known THEN {"noquote"} ELSE IF Sx.mq[e.a.q].st = "UNPAID" /\ e.a.lnerr THEN {"lnerr"} ELSE {}
      replyTags == IF e.r.ok /\ known /\ e.r.st # Ss.mq[e.a.q].st
                   THEN {<<"C03", "poll-reply-state:" \o e.r.st>>} ELSE {}
  IN J(VerdictTags(e.r.ok, e.r.panic, c, FALSE, "C03") \cup replyTags, {Sx, Ss})

JudgeMeltQuote(Sx, e) ==
  LET c == MeltQuoteCauses(Sx, e.a)
      \* C02: what the quote asks the user to burn covers what will be paid out (msat amounts round up, never down)
      toPay == IF e.a.kind = "mpp" THEN e.a.msat ELSE e.a.invmsat
      amtTags == IF e.r.ok /\ e.a.kind \in {"ext", "mpp"} /\ e.r.amt * 1000 < toPay
                 THEN {<<"C02", "quote-amount-below-amount-to-pay">>} ELSE {}
  IN
  J(VerdictTags(e.r.ok, e.r.panic, c, MeltQuoteDontCare(Sx, e.a), "C16") \cup amtTags,
    IF e.r.ok THEN {NewMeltQuote(Sx, e.r.q, e.a, e.r)} ELSE {Sx})

JudgeMelt(Sx, e) ==
  LET c == MeltCauses(Sx, e.a)
      feeTags == IF e.a.q \in DOMAIN Sx.lq /\ ~FeeLimitOk(Sx, e.a.q, e.a.ln)
                 THEN {<<"C02", "fee-limit-exceeds-reserve">>} ELSE {}
      allowed == IF e.r.ok /\ e.a.q \in DOMAIN Sx.lq THEN MeltOutcomes(Sx, e.a) ELSE {Sx}
      replyTags == IF e.r.ok /\ e.a.q \in DOMAIN Sx.lq
                      /\ ~\E S2 \in allowed : S2.lq[e.a.q].st = e.r.st /\ S2.lq[e.a.q].pre = e.r.pre
                   THEN {<<"C05", "melt-reply:" \o e.r.st \o "/" \o e.r.pre>>} ELSE {}
  IN J(VerdictTags(e.r.ok, e.r.panic, c, FALSE, InputsAcceptProp(Sx, e.a.ins)) \cup feeTags \cup replyTags, allowed)

Asked(ln, q) == \E i \in DOMAIN ln : ln[i].name = "OutgoingPaymentStatus" /\ ln[i].q = q

JudgePollMelt(Sx, e) ==
  LET known == e.a.q \in DOMAIN Sx.lq
      allowed == IF known THEN PollOutcomes(Sx, e.a.q, e.a.ln) ELSE {Sx}
      c == IF known THEN {} ELSE {"noquote"}
      replyTags == IF e.r.ok /\ known
                      /\ ~\E S2 \in allowed : S2.lq[e.a.q].st = e.r.st /\ S2.lq[e.a.q].pre = e.r.pre
                   THEN {<<"C05", "poll-reply:" \o e.r.st \o "/" \o e.r.pre>>} ELSE {}
      \* "the next state poll adopts it": a poll of a PENDING quote has to ask the backend (sequential histories: no melt request is
      \* working on the quote; the tag begins with poll-reply so that the acceptance search, where one may be, ignores it)
      askTags == IF e.r.ok /\ known /\ Sx.lq[e.a.q].st = "PENDING" /\ ~Asked(e.a.ln, e.a.q)
                 THEN {<<"C05", "poll-reply-without-asking-the-backend">>} ELSE {}
  IN J(VerdictTags(e.r.ok, e.r.panic, c, FALSE, "C05") \cup replyTags \cup askTags, allowed)

\* a state check first resolves every pending melt it touches
RECURSIVE ResolveAll(_, _, _)
ResolveAll(Ss, qs, ln) ==
  IF qs = {} THEN Ss
  ELSE LET q == CHOOSE q \in qs : TRUE
       IN ResolveAll(UNION {PollOutcomes(Sy, q, ln) : Sy \in Ss}, qs \ {q}, ln)

JudgeCheckState(Sx, e) ==
  LET ys == e.a.ys
      qs == {Sx.proof[ys[i]].by : i \in {j \in DOMAIN ys : ys[j] \in DOMAIN Sx.proof /\ Sx.proof[ys[j]].st = "pending"}}
      allowed == IF e.r.ok THEN ResolveAll({Sx}, qs, e.a.ln) ELSE {Sx}
      dontcare == Len(ys) = 0
      replyTags == IF e.r.ok /\ ~\E S2 \in allowed : StateCheckTruth(S2, ys, e.r.states)
                   THEN {<<"C15", "statecheck-reply">>} ELSE {}
      askTags == IF e.r.ok /\ \E q \in qs : q \in DOMAIN Sx.lq /\ Sx.lq[q].st = "PENDING" /\ ~Asked(e.a.ln, q)
                 THEN {<<"C05", "poll-reply-statecheck-without-asking-the-backend">>} ELSE {}
  IN J(VerdictTags(e.r.ok, e.r.panic, {}, dontcare, "C15") \cup replyTags \cup askTags, allowed)

JudgeRestore(Sx, e) ==
  J(VerdictTags(e.r.ok, e.r.panic, {}, Len(e.a.bs) = 0, "C15")
      \cup (IF e.r.ok /\ ~RestoreTruth(Sx, e.a.bs, e.r.outs, e.r.sigs) THEN {<<"C15", "restore-reply">>} ELSE {}),
    {Sx})

KsOf(f) == DOMAIN f
JudgeBalances(Sx, e) ==
  LET ks == DOMAIN Sx.ks
      okIssued == \A k \in ks : (IF k \in DOMAIN e.r.issued THEN e.r.issued[k] ELSE 0) = IssuedBy(Sx, k)
      okRedeemed == \A k \in ks : (IF k \in DOMAIN e.r.redeemed THEN e.r.redeemed[k] ELSE 0) = RedeemedBy(Sx, k)
      okBal == e.r.balance = Balance(Sx) /\ Balance(Sx) >= 0
      okDis == e.r.disabled = (Sx.lim.maxbal > 0 /\ Balance(Sx) >= Sx.lim.maxbal)
  IN J(VerdictTags(e.r.ok, e.r.panic, {}, FALSE, "C16")
        \cup (IF e.r.ok /\ ~okIssued THEN {<<"C16", "issued-total">>} ELSE {})
        \cup (IF e.r.ok /\ ~okRedeemed THEN {<<"C16", "redeemed-total">>} ELSE {})
        \cup (IF e.r.ok /\ ~okBal THEN {<<"C16", "balance">>} ELSE {})
        \cup (IF e.r.ok /\ ~okDis THEN {<<"C16", "info-disabled">>} ELSE {}),
       {Sx})

JudgeKeysets(Sx, e) ==
  LET okList == /\ DOMAIN e.r.list = DOMAIN Sx.ks
                /\ \A k \in DOMAIN Sx.ks : /\ e.r.list[k].active = Sx.ks[k].active
                                           /\ e.r.list[k].fee = Sx.ks[k].fee
                                           /\ e.r.list[k].nkeys = 60
                                           /\ e.r.list[k].unit = "sat"
      okActive == \A k \in DOMAIN e.r.list : e.r.list[k].active <=> e.r.list[k].id = e.r.activeid
  IN J(VerdictTags(e.r.ok, e.r.panic, {}, FALSE, "C09")
        \cup (IF e.r.ok /\ ~(okList /\ okActive) THEN {<<"C09", "keyset-listing">>} ELSE {}),
       {Sx})

\* C07: the process died inside operation e.a.op (facts e.a.a; backend calls made so far e.a.ln) and
\* was restarted.  The in-flight operation had either all or none of the effect of its current
\* phase: a melt may be found locked (inputs pending, quote PENDING: a later poll resolves it per the
\* C05 table) or resolved; everything else is all-or-nothing.
\* after a success report the inputs may already be SPENT while the quote is still PENDING: nothing is
\* lost or duplicated and the next poll completes it (the statement of C07 does not forbid it)
SpentNotYetPaid(S1, q, how) ==
  IF how = "success" /\ q \in DOMAIN S1.lq /\ S1.lq[q].st = "PENDING"
  THEN {[ApplyMeltOutcome(S1, q, <<"PAID", "spent">>) EXCEPT !.lq[q].st = "PENDING", !.lq[q].pre = "none"]}
  ELSE {}

CrashOutcomes(Sx, op, a, ln) ==
  CASE op = "swap" -> {Sx} \cup (IF SwapCauses(Sx, a) = {} THEN {SwapEffect(Sx, a, << >>)} ELSE {})
    [] op = "mint" ->
         IF a.q \notin DOMAIN Sx.mq THEN {Sx}
         ELSE LET Ss == SyncMq(Sx, a.q, a.lnerr)
              IN {Sx, Ss} \cup (IF MintCauses(Sx, a) = {} THEN {MintEffect(Ss, a, << >>)} ELSE {})
    [] op = "melt" ->
         IF a.q \notin DOMAIN Sx.lq \/ MeltCauses(Sx, a) # {} THEN {Sx}
         ELSE LET S1 == [MarkInputs(Sx, a.ins, "pending", a.q) EXCEPT !.lq[a.q].st = "PENDING"]
              IN {Sx, S1}
                 \cup (IF Sx.lq[a.q].kind = "int" THEN {InternalSettle(S1, a.q)}
                       ELSE {ApplyMeltOutcome(S1, a.q, oc) : oc \in C05Allowed(MeltHow(ln))}
                            \cup SpentNotYetPaid(S1, a.q, MeltHow(ln)))
    [] op = "pollmelt" -> {Sx} \cup PollOutcomes(Sx, a.q, ln) \cup SpentNotYetPaid(Sx, a.q, PollHow(ln, a.q))
    [] op = "checkstate" ->
         LET qs == {Sx.proof[a.ys[i]].by : i \in {j \in DOMAIN a.ys : a.ys[j] \in DOMAIN Sx.proof /\ Sx.proof[a.ys[j]].st = "pending"}}
         IN {Sx} \cup UNION {PollOutcomes(Sx, q, ln) \cup SpentNotYetPaid(Sx, q, PollHow(ln, q)) : q \in qs}
    [] op = "rotate" -> {Sx, Rotate(Sx, a.fee)}
    [] op = "restart" -> {Sx} \cup (IF a.rotate THEN {Rotate(Sx, a.fee)} ELSE {})
    [] OTHER -> {Sx}

JudgeCrash(Sx, e) ==
  J(IF e.r.ok THEN {} ELSE {<<"C07", "mint-cannot-restart">>},
    IF e.r.ok THEN CrashOutcomes(Sx, e.a.op, e.a.a, e.a.ln) ELSE {Sx})

\* C06: a structurally invalid request (hand-built JSON through the HTTP handler): never a panic, always
\* refused with 400 and a {detail, code} body, and nothing changes
JudgeMalformed(Sx, e) ==
  J((IF e.r.panic THEN {<<"C06", "panic:" \o e.a.target \o ":" \o e.a.cls>>} ELSE {})
      \cup (IF ~e.r.panic /\ e.r.status = 200 THEN {<<"C06", "malformed-request-accepted:" \o e.a.target \o ":" \o e.a.cls>>} ELSE {})
      \cup (IF ~e.r.panic /\ e.r.status # 200 /\ (e.r.status # 400 \/ ~e.r.errshape)
            THEN {<<"C20", "malformed-request-not-answered-400-detail-code:" \o e.a.target \o ":" \o e.a.cls>>} ELSE {}),
    {Sx})

\* the causes of refusal that hold for a recorded request (for the error-code check of C20)
CausesOf(Sx, e) ==
  CASE e.ev = "swap" -> SwapCauses(Sx, e.a)
    [] e.ev = "mint" -> MintCauses(Sx, e.a)
    [] e.ev = "melt" -> MeltCauses(Sx, e.a)
    [] e.ev = "mintquote" -> MintQuoteCauses(Sx, e.a, Balance(Sx))
    [] e.ev = "meltquote" -> MeltQuoteCauses(Sx, e.a)
    [] e.ev = "pollmint" -> IF e.a.q \in DOMAIN Sx.mq THEN (IF Sx.mq[e.a.q].st = "UNPAID" /\ e.a.lnerr THEN {"lnerr"} ELSE {}) ELSE {"noquote"}
    [] e.ev = "pollmelt" -> IF e.a.q \in DOMAIN Sx.lq THEN {} ELSE {"noquote"}
    [] OTHER -> {}

Judge(Sx, e) ==
  CASE e.ev = "swap" -> JudgeSwap(Sx, e)
    [] e.ev = "replay" -> J(ReplayTags(e) \cup (IF e.r.panic THEN {<<"C06", "panic:replay">>} ELSE {}), {Sx})
    [] e.ev = "keyshape" -> J(IF e.r.shape = "ok" THEN {} ELSE {<<"C20", "keys-or-info-shape:" \o e.r.shape>>}, {Sx})
    [] e.ev = "malformed" -> JudgeMalformed(Sx, e)
    [] e.ev = "crash" -> JudgeCrash(Sx, e)
    [] e.ev = "mintquote" -> JudgeMintQuote(Sx, e)
    [] e.ev = "settle" -> J({}, {LnSettle(Sx, e.a.q)})
    [] e.ev = "notify" -> J({}, {Notify(Sx, e.a.q)})
    [] e.ev = "pollmint" -> JudgePollMint(Sx, e)
    [] e.ev = "mint" -> JudgeMint(Sx, e)
    [] e.ev = "meltquote" -> JudgeMeltQuote(Sx, e)
    [] e.ev = "melt" -> JudgeMelt(Sx, e)
    [] e.ev = "pollmelt" -> JudgePollMelt(Sx, e)
    [] e.ev = "checkstate" -> JudgeCheckState(Sx, e)
    [] e.ev = "restore" -> JudgeRestore(Sx, e)
    [] e.ev = "balances" -> JudgeBalances(Sx, e)
    [] e.ev = "keysets" -> JudgeKeysets(Sx, e)
    [] e.ev = "rotate" -> J(VerdictTags(e.r.ok, e.r.panic, {}, FALSE, "C09"), IF e.r.ok THEN {Rotate(Sx, e.a.fee)} ELSE {Sx})
    [] e.ev = "restart" -> J(VerdictTags(e.r.ok, e.r.panic, {}, FALSE, "C09"), IF e.r.ok THEN {Restart(Sx, e.a.rotate, e.a.fee)} ELSE {Sx})
    [] OTHER -> J({<<"C00", "unknown-event:" \o e.ev>>}, {Sx})

\* attribution of a projection mismatch
DiffProp(e, d) ==
  IF e.ev = "crash" \/ e.a.fault THEN "C07"
  ELSE IF ~e.r.ok THEN "C06"
  ELSE CASE d = "proofs" -> IF e.ev \in {"melt", "pollmelt", "checkstate"} THEN "C05" ELSE "C15"
         [] d = "sigs" -> "C15"
         [] d = "witness" -> "C15"
         [] d = "mq" -> "C03"
         [] d = "lq" -> "C05"
         [] d = "ks" -> "C09"

\* invariants evaluated on the re-synchronised state
\* (edge-triggered: a broken invariant is reported at the step that breaks it)
InvTags(Sold, S2) ==
     (IF NoDoubleSpend(S2) \/ ~NoDoubleSpend(Sold) THEN {} ELSE {<<"C01", "secret-consumed-twice">>})
  \cup (IF \A s \in DOMAIN Sold.proof : Sold.proof[s].st = "spent" => S2.proof[s].st = "spent"
        THEN {} ELSE {<<"C01", "spent-not-forever">>})
  \cup (IF \A s \in DOMAIN S2.proof : S2.proof[s].st = "both" => (s \in DOMAIN Sold.proof /\ Sold.proof[s].st = "both")
        THEN {} ELSE {<<"C01", "pending-and-spent">>})
  \cup (IF NoInflation(S2) \/ ~NoInflation(Sold) THEN {} ELSE {<<"C02", "inflation">>})
  \cup (IF IssueOncePerPayment(S2) \/ ~IssueOncePerPayment(Sold) THEN {} ELSE {<<"C03", "issued-beyond-payments">>})
  \cup (IF OneActiveKeyset(S2) \/ ~OneActiveKeyset(Sold) THEN {} ELSE {<<"C09", "not-exactly-one-active-keyset">>})

StateFromInit(e) ==
  [InitState([k \in DOMAIN e.post.ks |-> [fee |-> e.post.ks[k].fee, active |-> e.post.ks[k].active]], e.a.limits)
     EXCEPT !.mpp = e.a.mpp]

=============================================================================
