------------------------------ MODULE WalletGen ------------------------------
(***************************************************************************)
(* Generator of wallet-world histories (simulation mode): wallets, mints,  *)
(* tokens, melts with scripted Lightning outcomes, rotations, restores.    *)
(* It keeps only approximate balances to choose plausible amounts; the     *)
(* recorded executions are judged by WalletTrace against Wallet.tla.       *)
(***************************************************************************)
EXTENDS Integers, Sequences, FiniteSets, TLC, Json

CONSTANTS Wallets, Mints, Fees, MaxOps, Profile, MintAmts

VARIABLES b, toks, ntok, n, hist, done, nmelt
vars == <<b, toks, ntok, n, hist, done, nmelt>>

Pick(T) == IF T # {} THEN {RandomElement(T)} ELSE {}
Often(w) == RandomElement(1..100) <= w
On(x) == x \in Profile
SendAmts == {1, 2, 3, 5, 7, 8, 13, 21, 34}
DefaultOf(w) == IF w = "w3" /\ "mb" \in Mints THEN "mb" ELSE "ma"

Record(op) == hist' = Append(hist, op) /\ n' = n + 1 /\ done' = done

Init ==
  /\ \E fa \in Fees, fb \in Fees :
       hist = <<[op |-> "cfg",
                 mints |-> [i \in 1..Cardinality(Mints) |-> [name |-> IF i = 1 THEN "ma" ELSE "mb", fee |-> IF i = 1 THEN fa ELSE fb, policy |-> "min1"]],
                 wallets |-> [i \in 1..Cardinality(Wallets) |-> [name |-> "w" \o ToString(i), default |-> DefaultOf("w" \o ToString(i))]]]>>
  /\ b = [w \in Wallets |-> [m \in Mints |-> 0]]
  /\ toks = << >> /\ ntok = 0 /\ n = 0 /\ done = FALSE /\ nmelt = 0

MintAct ==
  /\ On("mint") /\ Often(IF \A w \in Wallets : \A m \in Mints : b[w][m] = 0 THEN 100 ELSE 35)
  /\ \E w \in Pick(Wallets), m \in Pick(Mints), a \in Pick(MintAmts) :
       /\ b' = [b EXCEPT ![w][m] = @ + a]
       /\ Record([op |-> "mint", w |-> w, m |-> m, amt |-> a])
  /\ UNCHANGED <<toks, ntok, nmelt>>

Rich == {<<w, m>> \in Wallets \X Mints : b[w][m] >= 3}

SendAct ==
  /\ On("send") /\ Rich # {}
  /\ \E wm \in Pick(Rich) :
     \E a \in Pick({x \in SendAmts : x + 3 <= b[wm[1]][wm[2]]} \cup {1}), f \in Pick(BOOLEAN), over \in Pick({FALSE, FALSE, FALSE, FALSE, TRUE}) :
       LET amt == IF over THEN b[wm[1]][wm[2]] + 5 ELSE a IN
       /\ b' = IF over THEN b ELSE [b EXCEPT ![wm[1]][wm[2]] = @ - a - 1]
       /\ toks' = IF over THEN toks ELSE Append(toks, [id |-> "t" \o ToString(ntok + 1), mint |-> wm[2], amt |-> a, to |-> "", used |-> FALSE])
       /\ ntok' = IF over THEN ntok ELSE ntok + 1
       /\ Record([op |-> "send", w |-> wm[1], m |-> wm[2], amt |-> amt, fees |-> f])
  /\ UNCHANGED nmelt

SendLockedAct ==
  /\ On("sendlocked") /\ Rich # {} /\ Often(40)
  /\ \E wm \in Pick(Rich) :
     \E a \in Pick({x \in SendAmts : x + 3 <= b[wm[1]][wm[2]]} \cup {1}), to \in Pick(Wallets \ {wm[1]}), f \in Pick(BOOLEAN),
        sa \in Pick({FALSE, FALSE, TRUE}) :
       /\ b' = [b EXCEPT ![wm[1]][wm[2]] = @ - a - 2]
       /\ toks' = Append(toks, [id |-> "t" \o ToString(ntok + 1), mint |-> wm[2], amt |-> a, to |-> to, used |-> FALSE])
       /\ ntok' = ntok + 1
       /\ Record([op |-> "sendlocked", w |-> wm[1], m |-> wm[2], amt |-> a, to |-> to, fees |-> f, sigall |-> sa])
  /\ UNCHANGED nmelt

\* hash-locked ecash (NUT-14), optionally also locked to the recipient's key
SendHtlcAct ==
  /\ On("sendhtlc") /\ Rich # {} /\ Often(25)
  /\ \E wm \in Pick(Rich) :
     \E a \in Pick({x \in SendAmts : x + 3 <= b[wm[1]][wm[2]]} \cup {1}), to \in Pick((Wallets \ {wm[1]}) \cup {""}), f \in Pick(BOOLEAN) :
       /\ b' = [b EXCEPT ![wm[1]][wm[2]] = @ - a - 2]
       /\ toks' = Append(toks, [id |-> "t" \o ToString(ntok + 1), mint |-> wm[2], amt |-> a, to |-> to, used |-> FALSE])
       /\ ntok' = ntok + 1
       /\ Record([op |-> "sendhtlc", w |-> wm[1], m |-> wm[2], amt |-> a, to |-> to, fees |-> f])
  /\ UNCHANGED nmelt

ReceiveAct ==
  /\ On("receive")
  /\ \E i \in Pick({j \in DOMAIN toks : ~toks[j].used \/ Often(10)}) :
     \E w0 \in Pick(Wallets), sw \in Pick({FALSE, FALSE, TRUE}) :
       LET t == toks[i]
           w == IF t.to # "" /\ Often(85) THEN t.to ELSE w0
           dest == IF sw THEN DefaultOf(w) ELSE t.mint
           out == IF sw /\ dest # t.mint /\ Often(25) THEN RandomElement({"failed", "pending", "error"}) ELSE "success"
       IN /\ b' = IF out = "success" THEN [b EXCEPT ![w][dest] = @ + (IF t.amt > 2 THEN t.amt - 2 ELSE 0)] ELSE b
          /\ toks' = [toks EXCEPT ![i].used = TRUE]
          /\ Record([op |-> "receive", w |-> w, tok |-> t.id, swap |-> sw,
                     pay |-> IF out = "success" THEN << >> ELSE <<out>>,
                     status |-> IF out = "failed" THEN <<"failed">> ELSE IF out = "error" THEN <<"pending">> ELSE << >>])
  /\ UNCHANGED <<ntok, nmelt>>

MeltAct ==
  /\ On("melt") /\ Rich # {} /\ Often(60)
  /\ \E wm \in Pick({x \in Rich : b[x[1]][x[2]] >= 6}) :
     \E a \in Pick({x \in SendAmts : x + 4 <= b[wm[1]][wm[2]]}), out \in Pick({"success", "success", "failed", "pending", "error"}) :
       /\ b' = [b EXCEPT ![wm[1]][wm[2]] = @ - (IF out = "failed" THEN 0 ELSE a + 2)]
       /\ nmelt' = nmelt + 1
       /\ Record([op |-> "melt", w |-> wm[1], m |-> wm[2], amt |-> a,
                  pay |-> <<IF out = "error" THEN "error" ELSE out>>,
                  status |-> IF out = "failed" THEN <<"failed">> ELSE IF out = "error" THEN <<"pending">> ELSE << >>])
  /\ UNCHANGED <<toks, ntok>>

CheckMeltAct ==
  /\ On("checkmelt") /\ nmelt > 0 /\ Often(50)
  /\ \E w \in Pick(Wallets), st \in Pick({"succeeded", "failed", "pending"}) :
       Record([op |-> "checkmelt", w |-> w, status |-> <<st>>])
  /\ UNCHANGED <<b, toks, ntok, nmelt>>

ReclaimAct ==
  /\ On("reclaim") /\ ntok > 0 /\ Often(30)
  /\ \E w \in Pick(Wallets) : Record([op |-> "reclaim", w |-> w])
  /\ toks' = [i \in DOMAIN toks |-> toks[i]]
  /\ UNCHANGED <<b, ntok, nmelt>>

RemoveSpentAct ==
  /\ On("removespent") /\ ntok > 0 /\ Often(30)
  /\ \E w \in Pick(Wallets) : Record([op |-> "removespent", w |-> w])
  /\ UNCHANGED <<b, toks, ntok, nmelt>>

MintSwapAct ==
  /\ On("mintswap") /\ Cardinality(Mints) > 1 /\ Often(35)
  /\ \E wm \in Pick({x \in Rich : b[x[1]][x[2]] >= 12}) :
     \E a \in Pick({x \in SendAmts : x >= 5 /\ x + 6 <= b[wm[1]][wm[2]]}), to \in Pick(Mints \ {wm[2]}),
        out \in Pick({"success", "success", "success", "failed", "pending", "error"}) :
       /\ b' = IF out = "success" THEN [b EXCEPT ![wm[1]][wm[2]] = @ - a - 2, ![wm[1]][to] = @ + a - 3] ELSE [b EXCEPT ![wm[1]][wm[2]] = @ - a - 2]
       /\ Record([op |-> "mintswap", w |-> wm[1], from |-> wm[2], to |-> to, amt |-> a,
                  pay |-> IF out = "success" THEN << >> ELSE <<out>>,
                  status |-> IF out = "failed" THEN <<"failed">> ELSE IF out = "error" THEN <<"pending">> ELSE << >>])
  /\ UNCHANGED <<toks, ntok, nmelt>>

RotateAct ==
  /\ On("rotate") /\ Often(12)
  /\ \E m \in Pick(Mints), f \in Pick(Fees) : Record([op |-> "rotate", m |-> m, fee |-> f])
  /\ UNCHANGED <<b, toks, ntok, nmelt>>

RestoreAct ==
  /\ On("restore") /\ n >= 3 /\ Often(15)
  /\ \E w \in Pick(Wallets) : Record([op |-> "restore", w |-> w])
  /\ UNCHANGED <<b, toks, ntok, nmelt>>

Acts == MintAct \/ SendAct \/ SendLockedAct \/ SendHtlcAct \/ ReceiveAct \/ MeltAct \/ CheckMeltAct \/ ReclaimAct \/ RemoveSpentAct
        \/ MintSwapAct \/ RotateAct \/ RestoreAct

Done ==
  /\ ~done /\ (n = MaxOps \/ (n >= 5 /\ RandomElement(1..100) <= 2))
  /\ PrintT(<<"HIST", ToJson(hist)>>)
  /\ done' = TRUE
  /\ UNCHANGED <<b, toks, ntok, n, hist, nmelt>>

Next == (n < MaxOps /\ ~done /\ Acts) \/ Done
Spec == Init /\ [][Next]_vars
=============================================================================
