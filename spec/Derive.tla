------------------------------- MODULE Derive -------------------------------
(***************************************************************************)
(* The derivations of the Cashu specifications, written from NUT-00,       *)
(* NUT-02, NUT-13 and BIP32 over the primitives of ECPrim (C11, C09):      *)
(*   HashToCurve, KeysetId, BIP32 child key derivation, the mint's key      *)
(*   path m/0'/0'/idx'/i', the wallet's NUT-13 secret and blinding factor  *)
(*   m/129372'/0'/(id mod 2^31-1)'/counter'/{0,1}.                          *)
(***************************************************************************)
EXTENDS ECPrim

DomainSeparator == Utf8Hex("Secp256k1_HashToCurve_Cashu_")

\* NUT-00: Y = first valid point 02 || SHA256(SHA256(domain || msg) || counter_le32), counter = 0, 1, ...
RECURSIVE HtcFrom(_, _)
HtcFrom(h, c) ==
  IF c >= 65536 THEN "none"
  ELSE LET cand == "02" \o SHA256(h \o U32LE(c))
       IN IF IsPoint(cand) THEN cand ELSE HtcFrom(h, c + 1)
HashToCurve(msgHex) == HtcFrom(SHA256(DomainSeparator \o msgHex), 0)
RECURSIVE HtcCount(_, _)
HtcCount(h, c) == IF c >= 65536 \/ IsPoint("02" \o SHA256(h \o U32LE(c))) THEN c ELSE HtcCount(h, c + 1)
HashToCurveIterations(msgHex) == HtcCount(SHA256(DomainSeparator \o msgHex), 0) + 1

\* NUT-02: "00" || first 14 hex characters of SHA256(concatenation of the compressed public keys sorted by amount)
RECURSIVE Concat(_)
Concat(s) == IF s = << >> THEN "" ELSE Head(s) \o Concat(Tail(s))
KeysetId(keysSortedByAmount) == "00" \o HexSub(SHA256(Concat(keysSortedByAmount)), 0, 7)

\* BIP32 (private parent -> private child).  A key is [k |-> 32 bytes, c |-> chain code].
Master(seedHex) ==
  LET I == HMACSHA512(Utf8Hex("Bitcoin seed"), seedHex)
  IN [k |-> HexSub(I, 0, 32), c |-> HexSub(I, 32, 32)]
CKD(key, i, hardened) ==
  LET data == IF hardened THEN "00" \o key.k \o Ser32(i, TRUE) ELSE GMul(key.k) \o Ser32(i, FALSE)
      I == HMACSHA512(key.c, data)
  IN [k |-> AddModN(HexSub(I, 0, 32), key.k), c |-> HexSub(I, 32, 32)]

\* the mint: m/0'/0'/idx'/i' for i = 0..59 (amount 2^i)
MintKeysetPath(seedHex, idx) == CKD(CKD(CKD(Master(seedHex), 0, TRUE), 0, TRUE), idx, TRUE)
MintPubKeys(seedHex, idx) ==
  LET path == MintKeysetPath(seedHex, idx) IN [i \in 1..60 |-> GMul(CKD(path, i - 1, TRUE).k)]
MintKeysetId(seedHex, idx) == KeysetId(MintPubKeys(seedHex, idx))

\* NUT-13
Nut13KeysetInt(keysetIdHex) == U64BEMod(keysetIdHex, 2147483647)
Nut13Path(seedHex, keysetIdHex, counter) ==
  CKD(CKD(CKD(CKD(Master(seedHex), 129372, TRUE), 0, TRUE), Nut13KeysetInt(keysetIdHex), TRUE), counter, TRUE)
Nut13Secret(seedHex, keysetIdHex, counter) == CKD(Nut13Path(seedHex, keysetIdHex, counter), 0, FALSE).k
Nut13R(seedHex, keysetIdHex, counter) == CKD(Nut13Path(seedHex, keysetIdHex, counter), 1, FALSE).k

\* ---- published vectors (NUT-00, BIP32 test vector 1, NUT-13) ----
ASSUME HashToCurve("0000000000000000000000000000000000000000000000000000000000000000") =
       "024cce997d3b518f739663b757deaec95bcd9473c30a14ac2fd04023a739d1a725"
ASSUME HashToCurve("0000000000000000000000000000000000000000000000000000000000000001") =
       "022e7158e11c9506f1aa4248bf531298daa7febd6194f003edcd9b93ade6253acf"
ASSUME HashToCurve("0000000000000000000000000000000000000000000000000000000000000002") =
       "026cdbe15362df59cd1dd3c9c11de8aedac2106eca69236ecd9fbe117af897be4f"
ASSUME Master("000102030405060708090a0b0c0d0e0f") =
       [k |-> "e8f32e723decf4051aefac8e2c93c9c5b214313817cdb01a1494b917c8436b35",
        c |-> "873dff81c02f525623fd1fe5167eac3a55a049de3d314bb42ee227ffed37d508"]
ASSUME CKD(Master("000102030405060708090a0b0c0d0e0f"), 0, TRUE).k =
       "edb2e14f9ee77d26dd93b4ecede8d16ed408ce149b6cd80b0715a2d911a0afea"
ASSUME CKD(CKD(Master("000102030405060708090a0b0c0d0e0f"), 0, TRUE), 1, FALSE).k =
       "3c6cb8d0f6a264c91ea8b5030fadaa8e538b020f0a387421a12de9319dc93368"
Nut13Seed == "dd44ee516b0647e80b488e8dcc56d736a148f15276bef588b37057476d4b2b25780d3688a32b37353d6995997842c0fd8b412475c891c16310471fbc86dcbda8"
ASSUME Nut13Secret(Nut13Seed, "009a1f293253e41e", 0) = "485875df74771877439ac06339e284c3acfcd9be7abf3bc20b516faeadfe77ae"
ASSUME Nut13R(Nut13Seed, "009a1f293253e41e", 0) = "ad00d431add9c673e843d4c2bf9a778a5f402b985b8da2d5550bf39cda41d679"
ASSUME Nut13Secret(Nut13Seed, "009a1f293253e41e", 4) = "576c23393a8b31cc8da6688d9c9a96394ec74b40fdaf1f693a6bb84284334ea0"
=============================================================================
