---- MODULE LocksDump ----
EXTENDS Locks
ASSUME Dump(IOEnv.VERIF_WHICH, IOEnv.VERIF_OUT)
ASSUME PrintT(<<"CASES", Cardinality(Cases(IOEnv.VERIF_WHICH))>>)
====
