-------------------------------- MODULE Http --------------------------------
(***************************************************************************)
(* C20: the HTTP/JSON surface as a faithful transport of MintAPI's         *)
(* decisions.  Facts about each exchange come from the transport: status,  *)
(* error code, whether a 400 body is exactly {detail, code}, a shape       *)
(* verdict of the 200 body computed by a hand-written NUT shape predicate, *)
(* the number of storage calls the request caused.                         *)
(***************************************************************************)
EXTENDS Integers, Sequences, FiniteSets

\* NUT error codes a refusal may carry for a cause (the order of validation is free: any cause that holds)
NutCodes(c) ==
  CASE c \in {"spent", "pending"} -> {11001}
    [] c = "dupin" -> {11007, 10000}          \* identical structs: 11007; differing copies fail on the storage key: generic
    [] c \in {"overspend", "underfunded"} -> {11002}
    [] c \in {"ovf", "bigout", "outamt", "badB", "bigamt"} -> {10000}
    [] c = "badamt" -> {10003, 10000}
    [] c = "dupout" -> {11008, 10000}
    [] c = "outsigned" -> {10002}
    [] c = "badC" -> {10003, 10000}
    [] c = "toolong" -> {10004}
    [] c \in {"unknownks", "outunknownks"} -> {12001}
    [] c = "outinactive" -> {12002}
    [] c = "unpaid" -> {20001}
    [] c = "issued" -> {20002}
    [] c \in {"mqpending", "lqpending"} -> {20005}
    [] c = "lqpaid" -> {20006}
    [] c = "nut20" -> {20008}
    [] c = "noquote" -> {20009}
    [] c = "lock" -> {30001, 30004}
    [] c = "noinputs" -> {10003}
    [] c = "overquote" -> {10000}
    [] c = "lnerr" -> {10000}
    [] c \in {"maxmint", "maxmelt"} -> {11006}
    [] c = "maxbal" -> {20003}
    [] c = "unit" -> {11005}
    [] c \in {"notarget", "exists", "mppdisabled", "mppinternal", "mppnotpartial"} -> {20009}
    [] OTHER -> {10000}

HttpTags(h, ok, causes) ==
  IF ~h.used THEN {}
  ELSE (IF h.shape # "ok" THEN {<<"C20", "response-shape:" \o h.shape>>} ELSE {})
       \cup (IF h.status \notin {200, 400} THEN {<<"C20", "status-neither-200-nor-400">>} ELSE {})
       \cup (IF ok # (h.status = 200) THEN {<<"C20", "status-does-not-follow-the-decision">>} ELSE {})
       \cup (IF h.status = 400 /\ ~h.errbody THEN {<<"C20", "error-body-is-not-detail-code">>} ELSE {})
       \cup (IF h.status = 400 /\ causes # {} /\ h.code \notin UNION {NutCodes(c) : c \in causes}
             THEN {<<"C20", "error-code-does-not-name-an-actual-cause">>} ELSE {})

\* storage or Lightning failures are reported generically: the text of the failing call's error (the harness injects errors
\* with a marker text) never reaches the client, and the refusal still has the {detail, code} body
LeakTags(h) == IF h.used /\ h.leak THEN {<<"C20", "internal-detail-in-error-body">>} ELSE {}
FaultHttpTags(h) ==
  IF ~h.used THEN {}
  ELSE LeakTags(h)
       \cup (IF h.status \notin {200, 400} THEN {<<"C20", "status-neither-200-nor-400">>} ELSE {})
       \cup (IF h.status = 400 /\ ~h.errbody THEN {<<"C20", "error-body-is-not-detail-code">>} ELSE {})
       \cup (IF h.status = 200 /\ h.shape # "ok" THEN {<<"C20", "response-shape:" \o h.shape>>} ELSE {})

\* NUT-19: e.a.variant in identical / onebyte / otherpath / trailing / failed
ReplayTags(e) ==
  IF e.a.skipped THEN {}
  ELSE IF e.a.variant \in {"identical", "identical-old"}      \* identical-old: the oldest cached request, after later ones
  THEN (IF e.r.status = 200 /\ e.r.same /\ e.r.dbcalls = 0 THEN {} ELSE {<<"C20", "identical-replay-not-served-from-cache">>})
  ELSE (IF e.r.status = 200 /\ e.r.same THEN {<<"C20", "near-replay-served-from-cache:" \o e.a.variant>>} ELSE {})
=============================================================================
