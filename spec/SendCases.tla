----------------------------- MODULE SendCases -----------------------------
(***************************************************************************)
(* C18: the case space of Wallet.Send - wallet content (a multiset of      *)
(* denominations on the active keyset and on an inactive one), requested   *)
(* amount, includeFees and the mint's input_fee_ppk.  Each case is         *)
(* replayed with a real wallet (content injected as genuine proofs) and a  *)
(* real recipient; Wallet!SendStep / ReceiveStep judge it.                 *)
(***************************************************************************)
EXTENDS Integers, Sequences, FiniteSets, TLC, Json, IOUtils, SequencesExt, FiniteSetsExt

Denoms == <<1, 2, 4, 8, 16, 32>>
Fees == {0, 100, 250, 500, 1000, 2000}
Thorough == IOEnv.VERIF_TIER = "thorough"
MaxProofs == 3

\* a content is a function denomination index -> count, at most MaxProofs proofs in total
Contents(maxn) == {c \in [1..6 -> 0..maxn] : FoldSet(LAMBDA i, acc : acc + c[i], 0, 1..6) \in 1..maxn}
Total(c) == FoldSet(LAMBDA i, acc : acc + c[i] * Denoms[i], 0, 1..6)
Count(c) == FoldSet(LAMBDA i, acc : acc + c[i], 0, 1..6)
Zero == [i \in 1..6 |-> 0]

\* active content + (sometimes) a small inactive-keyset content
Wallets ==
  {[act |-> a, old |-> Zero] : a \in Contents(MaxProofs)}
  \cup {[act |-> a, old |-> o] : a \in Contents(2), o \in Contents(1)}
  \cup {[act |-> Zero, old |-> o] : o \in Contents(2)}

Seed == IF "VERIF_SEED" \in DOMAIN IOEnv THEN IOEnv.VERIF_SEED ELSE "1"
SeedN == IF Seed = "1" THEN 1 ELSE IF Seed = "2" THEN 2 ELSE IF Seed = "3" THEN 3 ELSE IF Seed = "4" THEN 4 ELSE 5
\* quick tier: a slice of the space chosen by a cheap hash of the case and the seed
Keep(ta, to, na, x, i, f) == Thorough \/ (ta * 7 + to * 13 + x * 31 + f + na * 3 + (IF i THEN 1 ELSE 0)) % 23 = SeedN

CasesOf(w) ==
  LET ta == Total(w.act)
      to == Total(w.old)
      na == Count(w.act)
  IN {[act |-> w.act, old |-> w.old, amt |-> t[1], fees |-> t[2], ppk |-> t[3]] :
        t \in {u \in (1..(ta + to)) \X BOOLEAN \X Fees : Keep(ta, to, na, u[1], u[2], u[3])}}
Selected == UNION {CasesOf(w) : w \in Wallets}

Ser(c) == [act |-> [i \in 1..6 |-> c.act[i]], old |-> [i \in 1..6 |-> c.old[i]], amt |-> c.amt, fees |-> c.fees, ppk |-> c.ppk]
ASSUME LET cs == SetToSeq(Selected) IN ndJsonSerialize(IOEnv.VERIF_OUT, [i \in DOMAIN cs |-> Ser(cs[i])])
ASSUME PrintT(<<"CASES", Cardinality(Selected), Cardinality(Wallets)>>)

VARIABLE x
Init == x = 0
Next == x' = x
=============================================================================
