------------------------------ MODULE Counter ------------------------------
(***************************************************************************)
(* C19 at the design level: the NUT-13 counter discipline of one wallet    *)
(* seed on one keyset, and restore by scanning, as the code does it        *)
(* (wallet/wallet.go createBlindedMessages / IncrementKeysetCounter after  *)
(* success; wallet/restore.go: batches of Batch counters from 0, stop      *)
(* after Empty consecutive empty batches, stored counter := end of the     *)
(* last non-empty batch).  Every storage write and every HTTP exchange of  *)
(* an output-creating operation is its own step, so that TLC places the    *)
(* process kill between any two of them.  The constants are scaled down    *)
(* (Batch = 2, Empty = 2 for 100 and 3); the argument does not depend on   *)
(* their values but on "a signed counter is never preceded by              *)
(* Batch * Empty unsigned ones", which is an invariant here (NoLongGap).   *)
(*                                                                         *)
(* Variant selects the code as it is ("code") or one of the defects this   *)
(* model must be able to tell apart (regression of the model itself):      *)
(*   "cumulative"  Restore adds the running counter after every non-empty  *)
(*                 batch (the defect repaired by fc78890)                  *)
(*   "inc-first"   the counter is incremented before the request is sent   *)
(*                 and not rolled back when it fails                       *)
(*   "no-inc"      one path stores the proofs and forgets the counter      *)
(* The same observations (counters of the outputs in every request,        *)
(* whether the mint signed, the stored counter after every operation) are  *)
(* taken from the real wallets by the harness and checked per event by     *)
(* Wallet!ReuseTags / CounterTags / RestoreStep.                           *)
(***************************************************************************)
EXTENDS Integers, FiniteSets, TLC

CONSTANTS MaxCtr, Batch, Empty, MaxK, MaxRestores, Variant

VARIABLES ctr,      \* the stored counter of the wallet's keyset record
          held,     \* counters whose proofs the wallet stores (spendable or pending)
          signed,   \* counters the mint holds a blind signature for
          spent,    \* counters whose proof is spent at the mint
          pc,       \* "idle" or the position inside an output-creating operation
          lo, k,    \* the counters lo .. lo+k-1 of the operation in progress
          order,    \* which write comes first in this operation: "proofs" (mint) or "counter" (receive, swap)
          clean,    \* no process kill since this wallet directory was created (fresh or by restore)
          restores, \* how many restores so far (bound)
          reuse     \* history: a clean wallet submitted a counter the mint had already signed
vars == <<ctr, held, signed, spent, pc, lo, k, order, clean, restores, reuse>>

Range(a, n) == a .. (a + n - 1)

Init ==
  /\ ctr = 0 /\ held = {} /\ signed = {} /\ spent = {} /\ pc = "idle" /\ lo = 0 /\ k = 0 /\ order = "proofs"
  /\ clean = TRUE /\ restores = 0 /\ reuse = FALSE

\* ---- an output-creating operation (mint, swap for send / receive, melt change), step by step ----
Begin ==
  /\ pc = "idle" /\ clean
  /\ \E n \in 1..MaxK, o \in {"proofs", "counter"} :
       /\ ctr + n <= MaxCtr
       /\ lo' = ctr /\ k' = n /\ order' = o
       /\ ctr' = IF Variant = "inc-first" THEN ctr + n ELSE ctr
  /\ pc' = "request"
  /\ UNCHANGED <<held, signed, spent, clean, restores, reuse>>

\* the HTTP request reaches the mint: it signs all outputs or none (an output already signed refuses the request)
MintSigns ==
  /\ pc = "request"
  /\ IF Range(lo, k) \cap signed = {}
     THEN signed' = signed \cup Range(lo, k) /\ pc' = "reply" /\ reuse' = reuse
     ELSE signed' = signed /\ pc' = "idle" /\ reuse' = (reuse \/ clean)      \* refused: "blinded message already signed"
  /\ UNCHANGED <<ctr, held, spent, lo, k, order, clean, restores>>

\* the request fails for another reason (refused inputs, transport): nothing signed, the operation ends
RequestFails ==
  /\ pc = "request" /\ clean
  /\ pc' = "idle"
  /\ UNCHANGED <<ctr, held, signed, spent, lo, k, order, clean, restores, reuse>>

\* the reply arrives; then the two storage writes in the order of this operation
FirstWrite ==
  /\ pc = "reply" /\ clean
  /\ IF order = "proofs" THEN held' = held \cup Range(lo, k) /\ ctr' = ctr
     ELSE held' = held /\ ctr' = (IF Variant = "inc-first" THEN ctr ELSE ctr + k)
  /\ pc' = "second"
  /\ UNCHANGED <<signed, spent, lo, k, order, clean, restores, reuse>>

SecondWrite ==
  /\ pc = "second" /\ clean
  /\ IF order = "proofs"
     THEN held' = held /\ ctr' = (IF Variant \in {"inc-first", "no-inc"} THEN ctr ELSE ctr + k)
     ELSE held' = held \cup Range(lo, k) /\ ctr' = ctr
  /\ pc' = "idle"
  /\ UNCHANGED <<signed, spent, lo, k, order, clean, restores, reuse>>

\* a held proof is spent (sent and redeemed, swapped, melted): by whoever holds it
Spend ==
  /\ \E c \in held \ spent :
       /\ spent' = spent \cup {c}
       /\ held' = held \ {c}
  /\ UNCHANGED <<ctr, signed, pc, lo, k, order, clean, restores, reuse>>

\* ---- faults and recovery ----
\* the wallet process is killed between any two steps; the device is lost
Kill ==
  /\ pc # "idle" /\ clean
  /\ clean' = FALSE
  /\ UNCHANGED <<ctr, held, signed, spent, pc, lo, k, order, restores, reuse>>

\* restore.go: scan from 0 in batches; a batch is non-empty when the mint has a signature for one of its counters
NonEmpty(i) == Range(i * Batch, Batch) \cap signed # {}
\* the scan looks at batch i iff fewer than Empty consecutive empty batches precede it
Scanned(i) == \A j \in 0..i : (j + Empty <= i) => \E m \in j..(j + Empty - 1) : NonEmpty(m)
Batches == 0 .. ((MaxCtr \div Batch) + Empty)
Found == UNION {Range(i * Batch, Batch) \cap signed : i \in {j \in Batches : Scanned(j) /\ NonEmpty(j)}}
LastEnd == LET ne == {j \in Batches : Scanned(j) /\ NonEmpty(j)} IN
           IF ne = {} THEN 0 ELSE (CHOOSE j \in ne : \A m \in ne : m <= j) * Batch + Batch
CumulativeEnd == LET ne == {j \in Batches : Scanned(j) /\ NonEmpty(j)} IN
                 IF ne = {} THEN 0
                 ELSE LET RECURSIVE Sum(_) Sum(T) == IF T = {} THEN 0 ELSE LET x == CHOOSE y \in T : TRUE IN (x + 1) * Batch + Sum(T \ {x}) IN Sum(ne)

Restore ==
  /\ restores < MaxRestores
  /\ (pc = "idle" \/ ~clean)              \* a backup restored on a new device, or recovery after a kill
  /\ held' = Found \ spent
  /\ ctr' = IF Variant = "cumulative" THEN CumulativeEnd ELSE LastEnd
  /\ pc' = "idle" /\ clean' = TRUE /\ restores' = restores + 1
  /\ UNCHANGED <<signed, spent, lo, k, order, reuse>>

Next == Begin \/ MintSigns \/ RequestFails \/ FirstWrite \/ SecondWrite \/ Spend \/ Kill \/ Restore
Spec == Init /\ [][Next]_vars

-----------------------------------------------------------------------------
\* C19, first sentence: a wallet that was not killed never submits a counter the mint had signed ...
NoReuse == ~reuse
\* ... and between operations its stored counter is past every signed counter
CounterPast == (clean /\ pc = "idle") => \A c \in signed : c < ctr
\* C19, second sentence: right after a restore the wallet holds every unspent signed output of the seed
HeldIsLive == (clean /\ pc = "idle") => held \subseteq (signed \ spent)
\* what makes the scan complete: a signed counter is never preceded by Batch * Empty unsigned ones
NoLongGap == \A c \in signed : c >= Batch * Empty => \E d \in (c - Batch * Empty) .. (c - 1) : d \in signed
\* the restore clause proper, as an action property: the step Restore yields exactly signed \ spent
RestoreExact == [][(restores' = restores + 1) => held' = signed \ spent]_vars
\* bound for TLC: few spends are enough (a spent counter only has to exist on either side of a batch border)
FewSpent == Cardinality(spent) <= MaxK + 1
=============================================================================
