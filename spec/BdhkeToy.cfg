INIT Init
NEXT Next
