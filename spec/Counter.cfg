SPECIFICATION Spec
CONSTANTS
  MaxCtr = 16
  Batch = 2
  Empty = 2
  MaxK = 2
  MaxRestores = 3
  Variant = "code"
INVARIANTS NoReuse CounterPast HeldIsLive NoLongGap
PROPERTY RestoreExact
CONSTRAINT FewSpent
CHECK_DEADLOCK FALSE
