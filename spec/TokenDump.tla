---- MODULE TokenDump ----
EXTENDS Token
ASSUME Dump(IOEnv.VERIF_OUT)
ASSUME PrintT(<<"CASES", Cardinality(Selected)>>)
====
