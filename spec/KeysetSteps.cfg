SPECIFICATION Spec
CHECK_DEADLOCK FALSE
CONSTANTS MaxRot = 3
  MaxCrash = 2
  Recovery = "latest"
INVARIANT Inv_OneActive
INVARIANT Inv_Unchanged
INVARIANT Inv_CanStart
INVARIANT Inv_Rows
