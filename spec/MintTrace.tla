----------------------------- MODULE MintTrace -----------------------------
(***************************************************************************)
(* Monitor-mode trace validation of executions recorded from the real mint *)
(* against MintAPI.  Each trace line is one operation with the facts of    *)
(* the request (a), the actual reply (r) and the side-effect-free          *)
(* projection of the real state after the step (post).  For every line     *)
(* the monitor                                                             *)
(*   1. computes MintAPI's verdict (Causes / DontCare) and compares it     *)
(*      with the actual reply,                                             *)
(*   2. computes the set of states MintAPI allows after the step and       *)
(*      compares their projection with the real one,                       *)
(*   3. evaluates every state invariant on the resulting state,            *)
(* records each mismatch as a tag <<property, trace, line, reason>> and    *)
(* re-synchronises on the real projection so that the rest of the trace    *)
(* is still checked.  Traces are concatenated; an "init" line resets.      *)
(***************************************************************************)
EXTENDS MintJudge, Json, IOUtils

Trace == ndJsonDeserialize(IOEnv.VERIF_TRACE)
OutFile == IOEnv.VERIF_TAGS

VARIABLES l, S, bad, stats
vars == <<l, S, bad, stats>>

-----------------------------------------------------------------------------
Init == l = 1 /\ S = InitState(<< >>, [maxbal |-> 0, maxmint |-> 0, maxmelt |-> 0]) /\ bad = {} /\ stats = [events |-> 0, accepted |-> 0, rejected |-> 0]

Step ==
  /\ l <= Len(Trace)
  /\ LET e == Trace[l] IN
     IF e.ev = "init"
     THEN /\ S' = StateFromInit(e)
          /\ bad' = bad
          /\ stats' = [stats EXCEPT !.events = @ + 1]
     ELSE LET j0 == Judge(S, e)
              \* an operation that failed because a storage/Lightning error was injected into it is
              \* judged like a crashed one: all or nothing of its current phase (C07)
              faulted == e.a.fault /\ ~e.r.ok /\ ~e.r.panic
              \* NUT-19: a byte-identical repetition of a successful swap / mint is answered from the cache and is
              \* not an execution: nothing changes, no storage call
              cached == e.r.http.used /\ e.r.http.cachehit
              j == IF cached
                   THEN [tags |-> IF e.r.http.status = 200 /\ e.r.http.dbcalls = 0 THEN {}
                                  ELSE {<<"C20", "identical-replay-not-served-from-cache">>},
                         allowed |-> {S}]
                   ELSE IF faulted
                   THEN [tags |-> {}, allowed |-> CrashOutcomes(S, e.ev, e.a, IF "ln" \in DOMAIN e.a THEN e.a.ln ELSE << >>)]
                   ELSE IF e.a.fault THEN [j0 EXCEPT !.tags = {t \in @ : t[2] # "refused-without-cause"}] ELSE j0
              blind == e.ev = "crash" /\ ~e.r.ok   \* the mint could not be restarted: no projection
              match == IF blind THEN j.allowed ELSE {S2 \in j.allowed : ProjEq(S2, e.post)}
              cand == IF match # {} THEN CHOOSE S2 \in match : TRUE ELSE CHOOSE S2 \in j.allowed : TRUE
              diffTags == IF match # {} THEN {}
                          ELSE {<<DiffProp(e, d), "post-state-differs:" \o e.ev \o ":" \o d>> : d \in Diffs(cand, e.post)}
              S3 == IF blind THEN cand ELSE Adopt(cand, e.post)
              httpTags == IF cached THEN {} ELSE IF e.a.fault THEN FaultHttpTags(e.r.http)
                          ELSE HttpTags(e.r.http, e.r.ok, CausesOf(S, e)) \cup LeakTags(e.r.http)
              all == j.tags \cup diffTags \cup InvTags(S, S3) \cup httpTags
          IN /\ S' = S3
             /\ bad' = bad \cup {<<t[1], e.tr, e.i, t[2]>> : t \in all}
             /\ stats' = [stats EXCEPT !.events = @ + 1,
                                       !.accepted = @ + (IF e.r.ok THEN 1 ELSE 0),
                                       !.rejected = @ + (IF e.r.ok THEN 0 ELSE 1)]
  /\ l' = l + 1

Finish ==
  /\ l = Len(Trace) + 1
  /\ l' = l + 1
  /\ ndJsonSerialize(OutFile, <<[tags |-> SetToSeq(bad), stats |-> stats, lines |-> Len(Trace)]>>)
  /\ UNCHANGED <<S, bad, stats>>

Next == Step \/ Finish
Spec == Init /\ [][Next]_vars

\* acceptance: the whole trace was consumed
Consumed == TLCGet("stats").diameter >= Len(Trace) + 2
=============================================================================
