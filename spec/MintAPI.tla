------------------------------ MODULE MintAPI ------------------------------
(***************************************************************************)
(* The Cashu mint as its users rely on it (layer 1).  One abstract state,   *)
(* one atomic step per API operation or environment event.  Written to be  *)
(* bound: every operator takes the abstract state S and the *facts* of a   *)
(* request (provenance of every field, never a verdict) and computes       *)
(*   - Causes : the set of reasons for refusal that hold (MustReject iff   *)
(*              non-empty; the order of validation is left free),          *)
(*   - Effect : the state after an accepted request,                       *)
(* so that the same definitions drive the exhaustive model (MintModel),    *)
(* the history generator (MintGen) and the trace monitor (MintTrace).      *)
(*                                                                         *)
(* Abstract state (a record):                                              *)
(*  ks      [kid -> [fee, active]]                                         *)
(*  proof   [sec -> [sigs, st, by, wit, lock, as]]                         *)
(*            sigs : set of <<kid, amt>> this secret holds signatures for  *)
(*            st   : "unspent" | "pending" | "spent";  by : melt quote     *)
(*            as   : <<kid, amt>> it was consumed as                       *)
(*  sig     [b -> [ks, amt, sec, tag]]   every signature ever handed out   *)
(*  mq      [q -> [amt, st, lock, settled, pays, issues, issuedAmt]]       *)
(*  lq      [q -> [amt, reserve, st, kind, target, msat, pre, truth]]      *)
(*  consumed[sec -> Nat]  ghost: successful consumptions of the secret     *)
(*  lnin, lnout  msat received / paid out (amount + full fee limit)        *)
(*  lim     [maxbal, maxmint, maxmelt]  (0 = unset)                        *)
(***************************************************************************)
EXTENDS Integers, Sequences, FiniteSets, FiniteSetsExt, SequencesExt, TLC

SeqSet(s) == {s[i] : i \in DOMAIN s}
SumSq(s, F(_)) == FoldSeq(LAMBDA x, acc : acc + F(x), 0, s)
SumOver(T, F(_)) == FoldSet(LAMBDA x, acc : acc + F(x), 0, T)
Max2(a, b) == IF a > b THEN a ELSE b
MaxOf(T) == FoldSet(LAMBDA x, acc : Max2(x, acc), 0, T)
Upd(f, k, v) == [x \in DOMAIN f \cup {k} |-> IF x = k THEN v ELSE f[x]]


InitState(ks, lim) ==
  [ ks |-> ks, proof |-> << >>, sig |-> << >>, mq |-> << >>, lq |-> << >>,
    consumed |-> << >>, lnin |-> 0, lnout |-> 0, lim |-> lim, mpp |-> FALSE ]

EmptyFn == [x \in {} |-> 0]

Active(S) == {k \in DOMAIN S.ks : S.ks[k].active}

-----------------------------------------------------------------------------
(* Inputs and outputs of swap / melt / mint requests                        *)

ProofSt(S, s) == IF s \in DOMAIN S.proof THEN S.proof[s].st ELSE "unspent"

\* Is the C presented with input `in` a genuine signature by key (ks, amt) on that secret?
GenuineC(S, in) ==
  /\ in.corig \in DOMAIN S.sig
  /\ in.big = ""
  /\ S.sig[in.corig].sec = in.sec
  /\ S.sig[in.corig].ks = in.ks
  /\ S.sig[in.corig].amt = in.amt

InCauses(S, in) ==
     (IF in.long THEN {"toolong"} ELSE {})
  \cup (IF in.ks \notin DOMAIN S.ks THEN {"unknownks"} ELSE {})
  \cup (IF ~in.amtkey THEN {"badamt"} ELSE {})
  \cup (IF ~GenuineC(S, in) THEN {"badC"} ELSE {})
  \cup (IF ProofSt(S, in.sec) \in {"spent", "both"} THEN {"spent"} ELSE {})
  \cup (IF ProofSt(S, in.sec) = "pending" THEN {"pending"} ELSE {})
  \cup (IF in.lock # "none" /\ in.signer # in.lock THEN {"lock"} ELSE {})

DupSecrets(ins) == \E i, j \in DOMAIN ins : i # j /\ ins[i].sec = ins[j].sec

InsCauses(S, ins) ==
     (IF Len(ins) = 0 THEN {"noinputs"} ELSE {})
  \cup UNION {InCauses(S, ins[i]) : i \in DOMAIN ins}
  \cup (IF DupSecrets(ins) THEN {"dupin"} ELSE {})

InSum(ins) == SumSq(ins, LAMBDA in : in.amt)
OutSum(outs) == SumSq(outs, LAMBDA o : o.amt)
AnyBig(xs) == \E i \in DOMAIN xs : xs[i].big # ""

Fee(S, ins) ==
  (SumSq(ins, LAMBDA in : IF in.ks \in DOMAIN S.ks THEN S.ks[in.ks].fee ELSE 0) + 999) \div 1000

OutCauses(S, o) ==
     (IF o.b \in DOMAIN S.sig THEN {"outsigned"} ELSE {})
  \cup (IF o.ks \notin DOMAIN S.ks THEN {"outunknownks"}
        ELSE IF ~S.ks[o.ks].active THEN {"outinactive"} ELSE {})
  \cup (IF ~o.amtkey THEN {"outamt"} ELSE {})
  \cup (IF o.form # "ok" THEN {"badB"} ELSE {})
  \cup (IF o.big # "" THEN {"bigout"} ELSE {})

OutsCauses(S, outs, ovf) ==
     UNION {OutCauses(S, outs[i]) : i \in DOMAIN outs}
  \cup (IF ovf THEN {"ovf"} ELSE {})
  \cup (IF \E i, j \in DOMAIN outs : i # j /\ outs[i].b = outs[j].b THEN {"dupout"} ELSE {})

\* Signing the outputs: every output becomes a handed-out signature and a spendable proof.
AddSigs(S, outs, tags) ==
  LET n == Len(outs)
      sig2 == [b \in DOMAIN S.sig \cup {outs[i].b : i \in 1..n} |->
                 IF b \in DOMAIN S.sig THEN S.sig[b]
                 ELSE LET i == CHOOSE i \in 1..n : outs[i].b = b
                      IN [ks |-> outs[i].ks, amt |-> outs[i].amt, sec |-> outs[i].sec,
                          tag |-> IF i \in DOMAIN tags THEN tags[i] ELSE ""]]
      newsecs == {outs[i].sec : i \in 1..n}
      sigsOf(s) == {<<outs[i].ks, outs[i].amt>> : i \in {j \in 1..n : outs[j].sec = s}}
      lockOf(s) == outs[CHOOSE i \in 1..n : outs[i].sec = s].lock
      proof2 == [s \in DOMAIN S.proof \cup newsecs |->
                  IF s \in DOMAIN S.proof
                  THEN [S.proof[s] EXCEPT !.sigs = @ \cup sigsOf(s)]
                  ELSE [sigs |-> sigsOf(s), st |-> "unspent", by |-> "", wit |-> "none",
                        lock |-> lockOf(s), as |-> <<"", 0>>]]
  IN [S EXCEPT !.sig = sig2, !.proof = proof2]

\* Marking inputs: st is "spent" (consumption) or "pending" (locked by melt quote q).
MarkInputs(S, ins, st, q) ==
  LET n == Len(ins)
      secs == {ins[i].sec : i \in 1..n}
      inOf(s) == ins[CHOOSE i \in 1..n : ins[i].sec = s]
      base(s) == IF s \in DOMAIN S.proof THEN S.proof[s]
                 ELSE [sigs |-> {}, st |-> "unspent", by |-> "", wit |-> "none",
                       lock |-> inOf(s).lock, as |-> <<"", 0>>]
      proof2 == [s \in DOMAIN S.proof \cup secs |->
                  IF s \in secs
                  THEN [base(s) EXCEPT !.st = st, !.by = q, !.wit = inOf(s).wit,
                                       !.as = <<inOf(s).ks, inOf(s).amt>>]
                  ELSE S.proof[s]]
      cons2 == IF st # "spent" THEN S.consumed
               ELSE [s \in DOMAIN S.consumed \cup secs |->
                      (IF s \in DOMAIN S.consumed THEN S.consumed[s] ELSE 0)
                      + Cardinality({i \in 1..n : ins[i].sec = s})]
  IN [S EXCEPT !.proof = proof2, !.consumed = cons2]

-----------------------------------------------------------------------------
(* Swap                                                                     *)

SwapCauses(S, a) ==
     InsCauses(S, a.ins)
  \cup OutsCauses(S, a.outs, a.ovf)
  \cup (IF ~AnyBig(a.ins) /\ ~AnyBig(a.outs) /\ ~a.ovf
           /\ InSum(a.ins) - Fee(S, a.ins) < OutSum(a.outs)
        THEN {"overspend"} ELSE {})

\* Appendix A: an empty output list is a malformed request, any non-panicking reply is allowed.
SwapDontCare(S, a) == Len(a.outs) = 0

SwapEffect(S, a, tags) == AddSigs(MarkInputs(S, a.ins, "spent", ""), a.outs, tags)

-----------------------------------------------------------------------------
(* Mint quotes                                                              *)

\* the state any client can observe: stored UNPAID with a settled invoice is as good as PAID
EffMq(m) == IF m.st = "UNPAID" /\ m.settled THEN "PAID" ELSE m.st

MintQuoteCauses(S, a, balance) ==
     (IF a.unit # "sat" THEN {"unit"} ELSE {})
  \cup (IF a.big # "" THEN {"bigamt"} ELSE {})
  \cup (IF S.lim.maxmint > 0 /\ a.amt > S.lim.maxmint THEN {"maxmint"} ELSE {})
  \cup (IF S.lim.maxbal > 0 /\ balance + a.amt > S.lim.maxbal THEN {"maxbal"} ELSE {})

NewMintQuote(S, q, a) ==
  [S EXCEPT !.mq = Upd(@, q, [amt |-> a.amt, st |-> "UNPAID", lock |-> a.lock, settled |-> FALSE,
                               pays |-> 0, issues |-> 0, issuedAmt |-> 0])]

\* environment: the invoice is paid over Lightning by an outside payer
LnSettle(S, q) ==
  IF q \in DOMAIN S.mq /\ ~S.mq[q].settled
  THEN [S EXCEPT !.mq[q].settled = TRUE, !.mq[q].pays = @ + 1, !.lnin = @ + S.mq[q].amt * 1000]
  ELSE S

\* environment: the (possibly late) "invoice settled" notification
Notify(S, q) ==
  IF q \in DOMAIN S.mq /\ S.mq[q].st = "UNPAID" /\ S.mq[q].settled
  THEN [S EXCEPT !.mq[q].st = "PAID"] ELSE S

\* polling a quote synchronises the stored state with the backend (unless the backend errs)
SyncMq(S, q, lnerr) ==
  IF q \in DOMAIN S.mq /\ S.mq[q].st = "UNPAID" /\ S.mq[q].settled /\ ~lnerr
  THEN [S EXCEPT !.mq[q].st = "PAID"] ELSE S

MintCauses(S, a) ==
  IF a.q \notin DOMAIN S.mq THEN {"noquote"}
  ELSE LET m == S.mq[a.q] IN
     (IF m.st = "UNPAID" /\ a.lnerr THEN {"lnerr"} ELSE {})
  \cup (IF m.st = "UNPAID" /\ ~a.lnerr /\ ~m.settled THEN {"unpaid"} ELSE {})
  \cup (IF m.st = "ISSUED" THEN {"issued"} ELSE {})
  \cup (IF m.st = "PENDING" THEN {"mqpending"} ELSE {})
  \cup OutsCauses(S, a.outs, a.ovf)
  \cup (IF ~AnyBig(a.outs) /\ ~a.ovf /\ OutSum(a.outs) > m.amt THEN {"overquote"} ELSE {})
  \cup (IF m.lock # "none" /\ a.sig # "valid" THEN {"nut20"} ELSE {})

MintDontCare(S, a) == Len(a.outs) = 0

MintEffect(S, a, tags) ==
  LET S1 == AddSigs(S, a.outs, tags)
  IN [S1 EXCEPT !.mq[a.q].st = "ISSUED", !.mq[a.q].issues = @ + 1,
                !.mq[a.q].issuedAmt = @ + OutSum(a.outs)]

-----------------------------------------------------------------------------
(* Melt                                                                     *)

MeltQuoteCauses(S, a) ==
     (IF a.unit # "sat" THEN {"unit"} ELSE {})
  \cup (IF a.kind \in {"mpp", "mppint"} /\ ~S.mpp THEN {"mppdisabled"} ELSE {})
  \cup (IF a.kind = "mppint" THEN {"mppinternal"} ELSE {})     \* a partial payment of one of the mint's own invoices
  \cup (IF a.kind = "mpp" /\ a.msat >= a.invmsat THEN {"mppnotpartial"} ELSE {})
  \cup (IF a.kind \in {"int", "mppint", "forged"} /\ a.target \notin DOMAIN S.mq THEN {"notarget"} ELSE {})
  \cup (IF S.lim.maxmelt > 0 /\ a.amt > S.lim.maxmelt THEN {"maxmelt"} ELSE {})
  \cup (IF a.kind = "int" /\ \E q \in DOMAIN S.lq : S.lq[q].kind = "int" /\ S.lq[q].target = a.target
        THEN {"exists"} ELSE {})

\* kind "forged": somebody else's invoice carrying the payment hash of one of the mint's own invoices and another amount.
\* Refusing it and quoting it like any outside invoice are both fine; what must not happen is shown by the melt that
\* follows: it is an outside payment (MeltOutcomes), never a settlement of the mint quote with that hash.
MeltQuoteDontCare(S, a) == a.kind = "forged" /\ a.target \in DOMAIN S.mq

NewMeltQuote(S, q, a, r) ==
  [S EXCEPT !.lq = Upd(@, q, [amt |-> r.amt, reserve |-> r.reserve, st |-> "UNPAID", kind |-> a.kind,
                               target |-> a.target, msat |-> a.msat, pre |-> "none", truth |-> "none"])]

MeltCauses(S, a) ==
  IF a.q \notin DOMAIN S.lq THEN {"noquote"}
  ELSE LET l == S.lq[a.q] IN
     (IF l.st = "PAID" THEN {"lqpaid"} ELSE {})
  \cup (IF l.st = "PENDING" THEN {"lqpending"} ELSE {})
  \cup InsCauses(S, a.ins)
  \cup (IF ~AnyBig(a.ins) /\ InSum(a.ins) < l.amt + l.reserve + Fee(S, a.ins) THEN {"underfunded"} ELSE {})

\* The C05 table.  `how` is what the backend said about the payment in this step:
\*   "success"            a success report (pay call or status lookup)
\*   "fail"               a definitive failure: status lookup (without error) says failed, or
\*                        not-found right after a failed/errored pay call
\*   "ambiguous"          still in flight, transport error, generic lookup error, nothing asked
\*   "notfound-later"     not-found answered to a later poll (the statement permits the release
\*                        and does not clearly require it)
\* Result: the set of allowed (quote state, input state) pairs.
C05Allowed(how) ==
  CASE how = "success"        -> {<<"PAID", "spent">>}
    [] how = "fail"           -> {<<"UNPAID", "unspent">>}
    [] how = "ambiguous"      -> {<<"PENDING", "pending">>}
    [] how = "notfound-later" -> {<<"PENDING", "pending">>, <<"UNPAID", "unspent">>}

\* what the answers observed during a melt call amount to
MeltHow(ln) ==
  LET pays == SelectSeq(ln, LAMBDA c : c.name \in {"SendPayment", "PayPartialAmount"})
      stats == SelectSeq(ln, LAMBDA c : c.name = "OutgoingPaymentStatus")
  IN IF Len(pays) = 0 THEN "ambiguous"
     ELSE LET p == pays[1].answer IN
       IF p = "success" THEN "success"
       ELSE IF p = "pending" THEN "ambiguous"
       ELSE \* failed or transport error: the mint may look the payment up
         IF Len(stats) = 0 THEN "ambiguous"
         ELSE LET s == stats[1].answer IN
           IF s = "succeeded" THEN "success"
           ELSE IF s \in {"failed", "notfound"} THEN "fail"
           ELSE "ambiguous"

PollHow(ln, q) ==
  LET stats == SelectSeq(ln, LAMBDA c : c.name = "OutgoingPaymentStatus" /\ c.q = q)
  IN IF Len(stats) = 0 THEN "ambiguous"
     ELSE LET s == stats[1].answer IN
       IF s = "succeeded" THEN "success"
       ELSE IF s = "failed" THEN "fail"
       ELSE IF s = "notfound" THEN "notfound-later"
       ELSE "ambiguous"

SecsBy(S, q) == {s \in DOMAIN S.proof : S.proof[s].st = "pending" /\ S.proof[s].by = q}

\* apply an outcome <<quote state, input state>> to quote q and the proofs it holds
ApplyMeltOutcome(S, q, oc) ==
  LET held == SecsBy(S, q)
      proof2 == [s \in DOMAIN S.proof |->
                  IF s \in held
                  THEN IF oc[2] = "spent" THEN [S.proof[s] EXCEPT !.st = "spent", !.by = ""]
                       ELSE IF oc[2] = "unspent" THEN [S.proof[s] EXCEPT !.st = "unspent", !.by = "", !.wit = "none", !.as = <<"", 0>>]
                       ELSE S.proof[s]
                  ELSE S.proof[s]]
      cons2 == IF oc[2] # "spent" THEN S.consumed
               ELSE [s \in DOMAIN S.consumed \cup held |->
                      (IF s \in DOMAIN S.consumed THEN S.consumed[s] ELSE 0) + (IF s \in held THEN 1 ELSE 0)]
  IN [S EXCEPT !.proof = proof2, !.consumed = cons2, !.lq[q].st = oc[1],
               !.lq[q].pre = IF oc[1] = "PAID" THEN "right" ELSE "none"]

\* internal settlement: a mint quote of this mint has the same invoice
InternalSettle(S, q) ==
  LET t == S.lq[q].target
      S1 == ApplyMeltOutcome(S, q, <<"PAID", "spent">>)
  IN [S1 EXCEPT !.mq[t].st = "PAID", !.mq[t].pays = @ + 1]

\* the set of allowed states after an accepted melt call
MeltOutcomes(S, a) ==
  LET S1 == [MarkInputs(S, a.ins, "pending", a.q) EXCEPT !.lq[a.q].st = "PENDING"]
  IN IF S.lq[a.q].kind = "int" THEN {InternalSettle(S1, a.q)}
     ELSE {ApplyMeltOutcome(S1, a.q, oc) : oc \in C05Allowed(MeltHow(a.ln))}

\* polling a PENDING melt quote / state check of a pending proof
PollOutcomes(S, q, ln) ==
  IF q \notin DOMAIN S.lq \/ S.lq[q].st # "PENDING" THEN {S}
  ELSE {ApplyMeltOutcome(S, q, oc) : oc \in C05Allowed(PollHow(ln, q))}

\* fee limits handed to the backend must not exceed the reserve the user paid (C02)
FeeLimitOk(S, q, ln) ==
  \A i \in DOMAIN ln :
     ln[i].name \in {"SendPayment", "PayPartialAmount"} => ln[i].feelimit <= S.lq[q].reserve

-----------------------------------------------------------------------------
(* Queries                                                                  *)

StateOf(S, s) ==
  IF s = "unknown" \/ s \notin DOMAIN S.proof THEN [st |-> "unspent", wit |-> "none"]
  ELSE [st |-> IF S.proof[s].st = "both" THEN "spent" ELSE S.proof[s].st,
        wit |-> IF S.proof[s].st = "unspent" THEN "none" ELSE S.proof[s].wit]

\* C15: the reply lists every requested Y in order with its true state and witness
StateCheckTruth(S, ys, states) ==
  /\ Len(states) = Len(ys)
  /\ \A i \in DOMAIN ys :
       /\ states[i].sec = ys[i]
       /\ states[i].st = StateOf(S, ys[i]).st
       /\ states[i].wit = StateOf(S, ys[i]).wit

\* C15: restore returns exactly the requested B_s that were signed, in order, as first returned
RestoreTruth(S, bs, outs, sigs) ==
  LET want == SelectSeq(bs, LAMBDA b : b \in DOMAIN S.sig)
  IN /\ outs = want
     /\ Len(sigs) = Len(want)
     /\ \A i \in DOMAIN want :
          /\ sigs[i].b = want[i]
          /\ sigs[i].ks = S.sig[want[i]].ks
          /\ sigs[i].amt = S.sig[want[i]].amt
          /\ S.sig[want[i]].tag \in {"", sigs[i].tag}

IssuedBy(S, k) == SumOver({b \in DOMAIN S.sig : S.sig[b].ks = k}, LAMBDA b : S.sig[b].amt)
RedeemedBy(S, k) ==
  SumOver({s \in DOMAIN S.proof : S.proof[s].st \in {"spent", "both"} /\ S.proof[s].as[1] = k},
         LAMBDA s : S.proof[s].as[2])
TotalIssued(S) == SumOver(DOMAIN S.sig, LAMBDA b : S.sig[b].amt)
TotalRedeemed(S) ==
  SumOver({s \in DOMAIN S.proof : S.proof[s].st \in {"spent", "both"}}, LAMBDA s : S.proof[s].as[2])
Balance(S) == TotalIssued(S) - TotalRedeemed(S)

-----------------------------------------------------------------------------
(* Keysets                                                                  *)

Rotate(S, fee) ==
  LET n == Cardinality(DOMAIN S.ks)
      new == "k" \o ToString(n)
  IN [S EXCEPT !.ks = [k \in DOMAIN S.ks \cup {new} |->
                         IF k = new THEN [fee |-> fee, active |-> TRUE]
                         ELSE [S.ks[k] EXCEPT !.active = FALSE]]]

\* after a restart no mint quote is left PENDING (a PENDING quote is one whose mint call was
\* interrupted; sequentially there is none)
Restart(S, rotate, fee) == IF rotate THEN Rotate(S, fee) ELSE S

-----------------------------------------------------------------------------
(* State invariants (properties C01, C02, C03, C09, C16 at the state level) *)

NoDoubleSpend(S) == \A s \in DOMAIN S.consumed : S.consumed[s] <= 1

\* value of a secret: the largest amount it holds a signature for
ValueOf(S, s) == MaxOf({p[2] : p \in S.proof[s].sigs})

PaidOut(S, q) == q \in DOMAIN S.lq /\ S.lq[q].truth = "succeeded"

\* unspent ecash, plus locked ecash whose payment has not (yet) succeeded in the backend's truth
Outstanding(S) ==
  SumOver({s \in DOMAIN S.proof :
            \/ S.proof[s].st = "unspent"
            \/ S.proof[s].st = "pending" /\ ~PaidOut(S, S.proof[s].by)},
         LAMBDA s : ValueOf(S, s))

\* payments received for mint quotes that have not been issued yet
Owed(S) == SumOver(DOMAIN S.mq, LAMBDA q : Max2(S.mq[q].pays - S.mq[q].issues, 0) * S.mq[q].amt)

NoInflation(S) == (Outstanding(S) + Owed(S)) * 1000 + S.lnout <= S.lnin
NoInflationWeak(S) == Outstanding(S) * 1000 + S.lnout <= S.lnin

IssueOncePerPayment(S) ==
  \A q \in DOMAIN S.mq :
     /\ S.mq[q].issues <= S.mq[q].pays
     /\ S.mq[q].issuedAmt <= S.mq[q].issues * S.mq[q].amt

OneActiveKeyset(S) == Cardinality(Active(S)) = 1

=============================================================================
