INIT Init
NEXT Next
