INIT Init
NEXT Next
