------------------------------- MODULE Locks -------------------------------
(***************************************************************************)
(* Decision specification of spending conditions: NUT-11 (P2PK) and        *)
(* NUT-14 (HTLC), as stated by properties C12 and C13.                     *)
(*                                                                         *)
(* A case is a lock configuration, a witness and the way it is presented   *)
(* (directly to the verifier, or as one input of a swap / melt among plain *)
(* inputs).  Verdict(c) is one of                                          *)
(*   "reject"   MustReject : the property forbids acceptance               *)
(*   "accept"   MustAccept : the property demands acceptance               *)
(*   "dontcare" the statement is silent                                    *)
(* The module is used twice: TLC enumerates Cases and writes them out      *)
(* (Dump), the harness concretises each with real keys, Schnorr signatures *)
(* and mint-signed proofs and records the actual verdict of the real code; *)
(* TLC then re-evaluates Verdict on every recorded line (Validate).        *)
(***************************************************************************)
EXTENDS Integers, Sequences, FiniteSets, TLC, Json, IOUtils, SequencesExt

\* ---- witness items (what a signature in the witness is, as a fact) ----
\*  L, L2     valid signature by the lock key (L2: another nonce, i.e. a different string)
\*  P1..P3    valid signature by listed co-signer i;  P1b: co-signer 1, another nonce
\*  R1, R2    valid signature by refund key i
\*  F         valid signature by a key that appears nowhere in the secret
\*  WL        signature by the lock key over another message
\*  G         64 bytes that are no valid signature;  X  not hex at all
Items == {"L", "L2", "P1", "P1b", "P2", "P3", "R1", "R2", "F", "WL", "G", "X"}

KeyOf(it) ==
  CASE it \in {"L", "L2"} -> "L"
    [] it \in {"P1", "P1b"} -> "P1"
    [] it \in {"P2", "P3", "R1", "R2", "F"} -> it
    [] OTHER -> "none"

Pubkeys(n) == {"P" \o ToString(i) : i \in 1..n}
Refunds(n) == {"R" \o ToString(i) : i \in 1..n}
SeqSet(s) == {s[i] : i \in DOMAIN s}

\* keys for which the witness holds a valid signature on the secret
SignedBy(w) == IF w.form # "list" THEN {} ELSE {KeyOf(it) : it \in SeqSet(w.items)} \ {"none"}

\* the witness is exactly what the library's single-signature helper produces for key k
Helper(w, k) == w.form = "list" /\ ~w.dup /\ Len(w.items) = 1 /\ w.items[1] = k

Locked(c) == c.lt \in {"none", "future"}

\* ---------------------------------------------------------------- P2PK (C12)
P2PKAuthorised(c) == {"L"} \cup (IF c.nsigs > 0 THEN Pubkeys(c.npub) ELSE {})
P2PKRequired(c) == IF c.nsigs > 0 THEN c.nsigs ELSE 1

P2PKVerify(c) ==
  IF Locked(c)
  THEN IF c.nsigs = 0 THEN "dontcare"                    \* a literal n_sigs = 0 tag
       ELSE IF c.nsigs > 0 /\ c.npub = 0 THEN "dontcare"  \* threshold without listed keys
       ELSE IF Cardinality(SignedBy(c.wit) \cap P2PKAuthorised(c)) < P2PKRequired(c) THEN "reject"
       ELSE IF P2PKRequired(c) = 1 /\ \E k \in P2PKAuthorised(c) : Helper(c.wit, k) THEN "accept"
       ELSE "dontcare"
  ELSE IF c.nref = 0 THEN "accept"                        \* anyone can spend
       ELSE IF SignedBy(c.wit) \cap Refunds(c.nref) = {} THEN "reject"
       ELSE IF \E k \in Refunds(c.nref) : Helper(c.wit, k) THEN "accept"
       ELSE "dontcare"

\* ---------------------------------------------------------------- HTLC (C13)
\* c.hash : "ok" | "short" | "nothex" | "upper";  c.pre : "right" | "wrong" | "nothex" | "empty" | "absent"
\* a witness that is absent or not JSON carries no preimage at all
EffPre(c) == IF c.wit.form \in {"none", "notjson"} THEN "absent" ELSE c.pre
HTLCVerify(c) ==
  IF Locked(c)
  THEN IF c.hash = "upper" THEN "dontcare"
       ELSE IF c.hash # "ok" \/ EffPre(c) # "right" THEN "reject"
       ELSE IF c.nsigs <= 0 THEN (IF c.wit.form = "emptylist" THEN "accept" ELSE "dontcare")
       ELSE IF c.npub = 0 THEN "reject"     \* a threshold over no keys cannot be met
       ELSE IF Cardinality(SignedBy(c.wit) \cap Pubkeys(c.npub)) < c.nsigs THEN "reject"
       ELSE IF c.nsigs = 1 /\ \E k \in Pubkeys(c.npub) : Helper(c.wit, k) THEN "accept"
       ELSE "dontcare"
  ELSE IF c.nref = 0 THEN "accept"
       ELSE IF SignedBy(c.wit) \cap Refunds(c.nref) = {} THEN "reject"
       ELSE IF \E k \in Refunds(c.nref) : Helper(c.wit, k) THEN "accept"
       ELSE "dontcare"

VerifyLevel(c) == IF c.kind = "P2PK" THEN P2PKVerify(c) ELSE HTLCVerify(c)

\* ---------------------------------------------------------------- through the mint
\* c.ep   : "verify" | "swap" | "melt"
\* c.pos  : position of the locked proof among honest plain inputs: "only" | "first" | "middle" | "last"
\* c.osig : what the swap outputs carry: "none" | "valid" (helper-signed by the lock/co-signer key,
\*          plus the right preimage for HTLC) | "garbage" | "onemissing" | witnesses that differ per output, every output validly
\*          signed by somebody: "laterbad" (only the first output carries the right preimage / an authorised signature),
\*          "firstbad" (all but the first), "latermissing" (later outputs: signatures but no preimage / no witness)
Verdict(c) ==
  LET v == VerifyLevel(c) IN
  CASE c.ep = "verify" -> v
    [] c.ep = "melt" -> IF c.flag = "all" THEN "reject" ELSE v
    [] c.ep = "swap" ->
         IF c.flag # "all" THEN v
         ELSE IF v = "reject" THEN "reject"
         \* a second locked input (c.pair): all inputs must share the same condition
         ELSE IF c.pos \in {"pairfirst", "pairlast"} /\ c.pair # "same" THEN "reject"
         ELSE IF c.pos \notin {"only", "pairfirst", "pairlast"} THEN "reject"
         ELSE IF ~Locked(c) THEN "dontcare"          \* SIG_ALL after the locktime: the statement is silent
         \* outputs signed by the first co-signer alone (helper): as good as the lock key's when one signature of
         \* {lock key} \cup pubkeys is asked for
         ELSE IF c.osig = "cosigner" THEN (IF c.kind = "P2PK" /\ c.nsigs = 1 /\ c.npub > 0 /\ v = "accept" THEN "accept" ELSE "dontcare")
         \* first output: two co-signers; later outputs: the lock key twice (different nonces) - one key where two are asked for
         ELSE IF c.osig = "onekeytwice" THEN (IF c.kind = "P2PK" /\ c.nsigs = 2 /\ c.npub = 2 THEN "reject" ELSE "dontcare")
         ELSE IF c.osig # "valid" THEN "reject"      \* every output must be signed as well
         ELSE IF c.kind = "HTLC" /\ (c.nsigs <= 0 \/ c.npub = 0) THEN "dontcare"  \* no key could sign the outputs
         ELSE IF v = "accept" THEN "accept" ELSE "dontcare"

\* ---------------------------------------------------------------- the case space
W(form, items, dup) == [form |-> form, items |-> items, dup |-> dup]
SpecialWits == {W("none", << >>, FALSE), W("notjson", << >>, FALSE), W("emptylist", << >>, FALSE)}

\* curated witnesses (quick tier): every class the property names
CuratedWits ==
  SpecialWits \cup
  {W("list", s, FALSE) : s \in {<<"L">>, <<"P1">>, <<"P2">>, <<"R1">>, <<"R2">>, <<"F">>, <<"WL">>, <<"G">>, <<"X">>,
                                <<"L", "P1">>, <<"P1", "P2">>, <<"L", "L2">>, <<"P1", "P1b">>, <<"L", "F">>, <<"G", "L">>,
                                <<"L", "P1", "P2">>, <<"L", "P1", "P1b">>, <<"P1", "P2", "P3">>, <<"L", "P1", "F">>,
                                <<"L", "P1", "P2", "P3">>, <<"L", "P1", "P2", "P1b">>, <<"R1", "L">>}}
  \cup {W("list", <<"L">>, TRUE), W("list", <<"L", "P1">>, TRUE), W("list", <<"P1">>, TRUE)}

\* thorough tier: all witnesses up to length 2 over the item alphabet and all of length 3 over its core (one item per
\* role: lock key and its second signature, co-signers, a foreign key, garbage) - 387 witnesses; the full alphabet at
\* length 3 (1899) makes the verify-level table exceed TLC's set size limit
CoreItems == {"L", "P1", "P1b", "P2", "F", "G"}
AllWits ==
  SpecialWits \cup {W("list", s, FALSE) : s \in UNION {[1..n -> Items] : n \in 1..2}}
  \cup {W("list", s, FALSE) : s \in [1..3 -> CoreItems]}
  \cup {W("list", <<a>>, TRUE) : a \in Items}

Thorough == IOEnv.VERIF_TIER = "thorough"
Wits == IF Thorough THEN AllWits ELSE CuratedWits

NSigs == {-1, 0, 1, 2, 3, 4}     \* -1: tag absent
LockTimes == {"none", "past", "future"}
Flags == {"none", "inputs", "all"}

P2PKVerifyCases ==
  {[kind |-> "P2PK", nsigs |-> n, npub |-> p, lt |-> lt, nref |-> r, flag |-> f, wit |-> w,
    hash |-> "ok", pre |-> "absent", ep |-> "verify", pos |-> "only", osig |-> "none", pair |-> "none"] :
     n \in NSigs, p \in 0..3, lt \in LockTimes, r \in 0..2, f \in Flags, w \in Wits}

HTLCWits ==
  IF Thorough THEN {w \in AllWits : w.form # "list" \/ Len(w.items) <= 2}
  ELSE SpecialWits \cup {W("list", s, FALSE) : s \in {<<"P1">>, <<"P2">>, <<"F">>, <<"G">>, <<"L">>, <<"R1">>, <<"P1", "P2">>,
                                                       <<"P1", "P1b">>, <<"P1", "F">>, <<"P1", "P2", "P3">>}}
                   \cup {W("list", <<"P1">>, TRUE)}
HTLCVerifyCases ==
  {[kind |-> "HTLC", nsigs |-> n, npub |-> p, lt |-> lt, nref |-> r, flag |-> "none", wit |-> w,
    hash |-> hp[1], pre |-> hp[2], ep |-> "verify", pos |-> "only", osig |-> "none", pair |-> "none"] :
     n \in (IF Thorough THEN {-1, 0, 1, 2, 3} ELSE {-1, 1, 2}), p \in 0..3, lt \in LockTimes, r \in 0..2, w \in HTLCWits,
     hp \in (IF Thorough THEN {"ok", "short", "nothex", "upper"} \X {"right", "wrong", "nothex", "empty", "absent"}
             ELSE ({"ok"} \X {"right", "wrong", "nothex", "empty", "absent"}) \cup ({"short", "nothex", "upper"} \X {"right"}))}

\* through the mint: a smaller product (each case needs a mint-signed proof and a swap)
MintWits == SpecialWits \cup {W("list", s, FALSE) : s \in {<<"L">>, <<"P1">>, <<"F">>, <<"G">>, <<"L", "P1">>, <<"L", "L2">>,
                                                           <<"P1", "P1b">>, <<"L", "P1", "P1b">>, <<"R1">>}}
MintCases ==
  {[kind |-> k, nsigs |-> n, npub |-> p, lt |-> lt, nref |-> r, flag |-> f, wit |-> w,
    hash |-> "ok", pre |-> (IF k = "HTLC" THEN pr ELSE "absent"), ep |-> ep, pos |-> pos, osig |-> os, pair |-> "none"] :
     k \in {"P2PK", "HTLC"}, n \in {-1, 1, 2, 3}, p \in {0, 2}, lt \in LockTimes, r \in {0, 1}, f \in Flags, w \in MintWits,
     pr \in {"right", "wrong"}, ep \in {"swap", "melt"}, pos \in {"only", "first", "middle", "last"},
     os \in {"none", "valid", "garbage", "onemissing", "laterbad", "firstbad", "latermissing", "cosigner", "onekeytwice"}}

\* a seeded slice of the mint-level table in the quick tier, everything in the thorough tier
Seed == IF "VERIF_SEED" \in DOMAIN IOEnv THEN IOEnv.VERIF_SEED ELSE "1"
Keep(c) ==
  \/ Thorough
  \/ c.ep = "melt" => (c.pos \in {"only", "last"} /\ c.osig = "none")
SelectedMintCases ==
  {c \in MintCases :
     /\ (c.ep = "melt" => c.osig = "none")
     /\ (c.flag # "all" => c.osig \in {"none"})
     /\ (c.kind = "P2PK" => c.pre = "absent")
     /\ (c.osig \in {"cosigner", "onekeytwice"} => c.kind = "P2PK" /\ c.npub = 2 /\ c.lt = "none" /\ c.nref = 0
                                                    /\ c.nsigs = (IF c.osig = "cosigner" THEN 1 ELSE 2))
     /\ (c.kind = "HTLC" /\ c.pre = "wrong" => c.wit.form = "none")
     /\ (Thorough \/ (c.pos \in {"only", "last", "first"} /\ c.nsigs \in {-1, 1, 2} /\ (c.nref = 0 \/ c.lt = "past")))}

\* two locked SIG_ALL inputs in one swap: c is the case's own input, its partner differs as c.pair says
\*   same: identical condition;  nsigs: another n_sigs (1 <-> 2), same keys;  keys: one co-signer fewer;
\*   noflag: same keys, no SIG_ALL flag.  Both inputs carry a valid witness for their own condition.
PairCases ==
  {[kind |-> "P2PK", nsigs |-> n, npub |-> 2, lt |-> "none", nref |-> 0, flag |-> "all",
    wit |-> (IF n = 2 THEN W("list", <<"L", "P1">>, FALSE) ELSE W("list", <<"L">>, FALSE)),
    hash |-> "ok", pre |-> "absent", ep |-> "swap", pos |-> pos, osig |-> os, pair |-> pr] :
     n \in {1, 2}, pos \in {"pairfirst", "pairlast"}, os \in {"none", "valid"}, pr \in {"same", "nsigs", "keys", "noflag"}}

Cases(which) ==
  CASE which = "p2pk" -> P2PKVerifyCases \cup {c \in SelectedMintCases : c.kind = "P2PK"} \cup PairCases
    [] which = "htlc" -> HTLCVerifyCases \cup {c \in SelectedMintCases : c.kind = "HTLC"}

\* ---------------------------------------------------------------- Dump mode
WithVerdict(c) == [c |-> c, expect |-> Verdict(c)]
Dump(which, file) ==
  LET cs == SetToSeq(Cases(which))
  IN ndJsonSerialize(file, [i \in DOMAIN cs |-> WithVerdict(cs[i])])

\* ---------------------------------------------------------------- Validate mode
\* each recorded line: [c |-> case, expect |-> (as dumped), actual |-> "accept"|"reject"|"panic", detail |-> ...]
Results == ndJsonDeserialize(IOEnv.VERIF_TRACE)
Mismatch(r) ==
  LET v == Verdict(r.c) IN
  \/ r.actual = "panic"
  \/ v = "accept" /\ r.actual # "accept"
  \/ v = "reject" /\ r.actual # "reject"
Bad == {i \in DOMAIN Results : Mismatch(Results[i])}
Regions == [v \in {"accept", "reject", "dontcare"} |-> Cardinality({i \in DOMAIN Results : Verdict(Results[i].c) = v})]
Validate(file) ==
  ndJsonSerialize(file, <<[bad |-> SetToSeq(Bad), n |-> Len(Results), regions |-> Regions,
                           tampered |-> Cardinality({i \in DOMAIN Results : Results[i].expect # Verdict(Results[i].c)})]>>)

VARIABLE x
Init == x = 0
Next == x' = x
=============================================================================
