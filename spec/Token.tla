-------------------------------- MODULE Token --------------------------------
(***************************************************************************)
(* C14: the abstract law of the token codecs and the totality of decoding. *)
(*                                                                         *)
(* A round-trip case is a shape of a proof list and the way a token is     *)
(* built from it; Law(c) says what must come out:                          *)
(*   "fail"       construction must be refused                             *)
(*   "roundtrip"  Decode(Serialize(New(...))) gives back mint, unit and    *)
(*                the same proofs as a multiset (V4 regroups by keyset)    *)
(*                with DLEQ kept iff requested, and Amount = sum mod 2^64  *)
(*   "dontcare"   the statement is silent                                  *)
(* A decoder case is a class of input strings; every member must yield an  *)
(* error or a token on which every accessor can be called ("total").       *)
(* The harness concretises the cases on cashu.NewTokenV3/V4, Serialize,    *)
(* DecodeToken and records what actually happened; TLC compares.           *)
(***************************************************************************)
EXTENDS Integers, Sequences, FiniteSets, TLC, Json, IOUtils, SequencesExt

Sizes == {0, 1, 2, 3, 17, 40}
SecretClasses == {"hex", "nut10", "unicode", "long"}
DleqClasses == {"none", "es", "esr", "esr-even", "esr-odd"}       \* es: (e, s) without r; esr-even / esr-odd: only every other proof has one
AmountClasses == {"small", "two63", "mixed"}
Forms == {"hex", "cnothex", "idnothex"}    \* C / keyset id that are not hex (V4 carries bytes)

RoundTripCases ==
  {[kind |-> "roundtrip", n |-> n, nks |-> k, sec |-> s, wit |-> w, dleq |-> d, amt |-> a, ver |-> v, incl |-> i, form |-> f] :
     n \in Sizes, k \in 1..4, s \in SecretClasses, w \in BOOLEAN, d \in DleqClasses, a \in AmountClasses,
     v \in {"V3", "V4"}, i \in BOOLEAN, f \in Forms}

Law(c) ==
  IF c.n = 0 THEN "dontcare"   \* a token of no proofs: nothing to give back
  ELSE IF c.ver = "V4" /\ c.form # "hex" THEN "fail"
  ELSE IF c.ver = "V3" /\ c.form # "hex" THEN "roundtrip"     \* V3 carries strings as they are
  ELSE IF c.ver = "V4" /\ c.incl /\ c.dleq = "es" THEN "fail"  \* DLEQ requested, r missing
  ELSE "roundtrip"

\* is DLEQ expected in the decoded proofs?
KeepsDleq(c) == c.incl /\ c.dleq # "none"

DecoderClasses ==
  {"len0", "len1", "len2", "len3", "len4", "len5", "len6", "len7", "len8", "wrongprefix", "prefix-only-A", "prefix-only-B",
   "b64invalid-A", "b64invalid-B", "b64-nonjson-A", "b64-noncbor-B", "json-emptylist-A", "json-notokenfield-A", "json-null-A",
   "json-wrongtypes-A", "cbor-emptylist-B", "cbor-nofields-B", "cbor-wrongtypes-B",
   "truncate-every-position-A", "truncate-every-position-B", "mutate-every-position-A", "mutate-every-position-B",
   "random-base64-A", "random-base64-B"}
DecoderCases == {[kind |-> "decode", cls |-> x] : x \in DecoderClasses}

Thorough == IOEnv.VERIF_TIER = "thorough"
Selected ==
  DecoderCases \cup
  (IF Thorough THEN RoundTripCases
   ELSE {c \in RoundTripCases : (c.n \in {0, 1, 3, 17} \/ (c.n = 40 /\ c.sec = "hex" /\ c.amt = "small" /\ c.form = "hex")) /\ (c.nks \in {1, 3}) /\ (c.form = "hex" \/ (c.n = 3 /\ c.sec = "hex" /\ c.amt = "small"))
                                /\ (c.amt # "mixed" \/ c.sec = "hex")})

Expect(c) == IF c.kind = "decode" THEN "total" ELSE Law(c)

Dump(file) == LET cs == SetToSeq(Selected) IN ndJsonSerialize(file, [i \in DOMAIN cs |-> [c |-> cs[i], expect |-> Expect(cs[i])]])

\* ---- validation of recorded results ----
\* r.actual: "roundtrip" | "fail" | "decode-error" | "mismatch:<what>" | "panic:<where>" | "total"
Results == ndJsonDeserialize(IOEnv.VERIF_TRACE)
Mismatch(r) ==
  LET e == Expect(r.c) IN
  \/ (Len(r.actual) >= 5 /\ SubSeq(r.actual, 1, 5) = "panic")
  \/ e = "total" /\ r.actual # "total"
  \/ e = "fail" /\ r.actual # "fail"
  \/ e = "roundtrip" /\ r.actual # "roundtrip"
Bad == {i \in DOMAIN Results : Mismatch(Results[i])}
Validate(file) ==
  ndJsonSerialize(file, <<[bad |-> SetToSeq(Bad), n |-> Len(Results),
                           regions |-> [v \in {"roundtrip", "fail", "total", "dontcare"} |->
                                          Cardinality({i \in DOMAIN Results : Expect(Results[i].c) = v})]]>>)

VARIABLE x
Init == x = 0
Next == x' = x
=============================================================================
