import java.math.BigInteger;
import java.nio.charset.StandardCharsets;
import java.security.MessageDigest;
import javax.crypto.Mac;
import javax.crypto.spec.SecretKeySpec;

import tlc2.value.impl.BoolValue;
import tlc2.value.impl.IntValue;
import tlc2.value.impl.StringValue;
import tlc2.value.impl.Value;

/**
 * TLC module overrides for ECPrim.tla: SHA-256, HMAC-SHA512, big integers modulo the group order and
 * secp256k1 point arithmetic, from the JDK only (MessageDigest, Mac, BigInteger). Everything travels
 * as lower-case hex strings. This code shares nothing with Go's crypto/sha256, btcsuite's hdkeychain
 * or decred's secp256k1, which is what makes the TLA+ definitions built on it an independent
 * reference.
 */
public class ECPrim {
    static final BigInteger P = new BigInteger("FFFFFFFFFFFFFFFFFFFFFFFFFFFFFFFFFFFFFFFFFFFFFFFFFFFFFFFEFFFFFC2F", 16);
    static final BigInteger N = new BigInteger("FFFFFFFFFFFFFFFFFFFFFFFFFFFFFFFEBAAEDCE6AF48A03BBFD25E8CD0364141", 16);
    static final BigInteger GX = new BigInteger("79BE667EF9DCBBAC55A06295CE870B07029BFCDB2DCE28D959F2815B16F81798", 16);
    static final BigInteger GY = new BigInteger("483ADA7726A3C4655DA4FBFC0E1108A8FD17B448A68554199C47D08FFB10D4B8", 16);
    static final BigInteger SEVEN = BigInteger.valueOf(7);
    static final BigInteger TWO = BigInteger.TWO;
    static final BigInteger THREE = BigInteger.valueOf(3);

    // affine points; null is the point at infinity
    static final class Pt {
        final BigInteger x, y;
        Pt(BigInteger x, BigInteger y) { this.x = x; this.y = y; }
    }

    static String s(Value v) { return ((StringValue) v).val.toString(); }

    static Value str(String x) { return new StringValue(x); }

    static byte[] unhex(String h) {
        if ((h.length() & 1) == 1) throw new IllegalArgumentException("odd hex length: " + h);
        byte[] b = new byte[h.length() / 2];
        for (int i = 0; i < b.length; i++) {
            int hi = Character.digit(h.charAt(2 * i), 16), lo = Character.digit(h.charAt(2 * i + 1), 16);
            if (hi < 0 || lo < 0) throw new IllegalArgumentException("not hex: " + h);
            b[i] = (byte) ((hi << 4) | lo);
        }
        return b;
    }

    static String hex(byte[] b) {
        StringBuilder sb = new StringBuilder(b.length * 2);
        for (byte x : b) sb.append(Character.forDigit((x >> 4) & 15, 16)).append(Character.forDigit(x & 15, 16));
        return sb.toString();
    }

    static String hex32(BigInteger v) {
        String h = v.toString(16);
        if (h.length() > 64) throw new IllegalArgumentException("more than 32 bytes");
        return "0".repeat(64 - h.length()) + h;
    }

    static BigInteger big(String h) { return h.isEmpty() ? BigInteger.ZERO : new BigInteger(h, 16); }

    static Pt add(Pt a, Pt b) {
        if (a == null) return b;
        if (b == null) return a;
        BigInteger l;
        if (a.x.equals(b.x)) {
            if (a.y.add(b.y).mod(P).signum() == 0) return null;
            l = THREE.multiply(a.x).multiply(a.x).multiply(TWO.multiply(a.y).modInverse(P)).mod(P);
        } else {
            l = b.y.subtract(a.y).multiply(b.x.subtract(a.x).modInverse(P)).mod(P);
        }
        BigInteger x = l.multiply(l).subtract(a.x).subtract(b.x).mod(P);
        BigInteger y = l.multiply(a.x.subtract(x)).subtract(a.y).mod(P);
        return new Pt(x, y);
    }

    static Pt mul(BigInteger k, Pt p) {
        k = k.mod(N);
        Pt r = null, q = p;
        for (int i = 0; i < k.bitLength(); i++) {
            if (k.testBit(i)) r = add(r, q);
            q = add(q, q);
        }
        return r;
    }

    static boolean onCurve(BigInteger x, BigInteger y) {
        return y.multiply(y).subtract(x.multiply(x).multiply(x)).subtract(SEVEN).mod(P).signum() == 0;
    }

    // parse a compressed (33 byte) point; null if it is not a valid encoding of a curve point
    static Pt parse(String h) {
        if (h.length() != 66) return null;
        int pre = Integer.parseInt(h.substring(0, 2), 16);
        if (pre != 2 && pre != 3) return null;
        BigInteger x = big(h.substring(2));
        if (x.compareTo(P) >= 0) return null;
        BigInteger rhs = x.multiply(x).multiply(x).add(SEVEN).mod(P);
        BigInteger y = rhs.modPow(P.add(BigInteger.ONE).shiftRight(2), P);
        if (!y.multiply(y).mod(P).equals(rhs)) return null;
        if (y.testBit(0) != (pre == 3)) y = P.subtract(y);
        return new Pt(x, y);
    }

    static String ser(Pt p) {
        if (p == null) return "";
        return (p.y.testBit(0) ? "03" : "02") + hex32(p.x);
    }

    static Pt need(String h) {
        Pt p = parse(h);
        if (p == null) throw new IllegalArgumentException("not a point: " + h);
        return p;
    }

    // ---------------- operators of ECPrim.tla ----------------

    public static Value SHA256(final Value h) throws Exception {
        return str(hex(MessageDigest.getInstance("SHA-256").digest(unhex(s(h)))));
    }

    public static Value HMACSHA512(final Value key, final Value data) throws Exception {
        Mac mac = Mac.getInstance("HmacSHA512");
        byte[] k = unhex(s(key));
        mac.init(new SecretKeySpec(k.length == 0 ? new byte[1] : k, "HmacSHA512"));
        return str(hex(mac.doFinal(unhex(s(data)))));
    }

    public static Value Utf8Hex(final Value t) {
        return str(hex(s(t).getBytes(StandardCharsets.UTF_8)));
    }

    public static Value IsHex(final Value t) {
        String x = s(t);
        if ((x.length() & 1) == 1) return BoolValue.ValFalse;
        for (int i = 0; i < x.length(); i++) if (Character.digit(x.charAt(i), 16) < 0) return BoolValue.ValFalse;
        return BoolValue.ValTrue;
    }

    public static Value HexLen(final Value t) { return IntValue.gen(s(t).length() / 2); }

    public static Value HexSub(final Value t, final Value from, final Value len) {
        int f = ((IntValue) from).val, l = ((IntValue) len).val;
        return str(s(t).substring(2 * f, 2 * (f + l)));
    }

    /** little-endian 4 bytes of a natural number below 2^31 */
    public static Value U32LE(final Value i) {
        int v = ((IntValue) i).val;
        return str(hex(new byte[] {(byte) v, (byte) (v >> 8), (byte) (v >> 16), (byte) (v >> 24)}));
    }

    /** big-endian 4 bytes of i, or of i + 2^31 when hardened */
    public static Value Ser32(final Value i, final Value hardened) {
        long v = ((IntValue) i).val & 0xffffffffL;
        if (((BoolValue) hardened).val) v |= 0x80000000L;
        return str(hex(new byte[] {(byte) (v >> 24), (byte) (v >> 16), (byte) (v >> 8), (byte) v}));
    }

    /** the first 8 bytes of h as an unsigned big-endian integer, modulo m (m below 2^31) */
    public static Value U64BEMod(final Value h, final Value m) {
        BigInteger v = new BigInteger(1, java.util.Arrays.copyOf(unhex(s(h)), 8));
        return IntValue.gen(v.mod(BigInteger.valueOf(((IntValue) m).val)).intValue());
    }

    public static Value AddModN(final Value a, final Value b) { return str(hex32(big(s(a)).add(big(s(b))).mod(N))); }

    public static Value MulModN(final Value a, final Value b) { return str(hex32(big(s(a)).multiply(big(s(b))).mod(N))); }

    public static Value NegModN(final Value a) { return str(hex32(N.subtract(big(s(a)).mod(N)).mod(N))); }

    public static Value ModN(final Value a) { return str(hex32(big(s(a)).mod(N))); }

    public static Value IsZeroModN(final Value a) { return big(s(a)).mod(N).signum() == 0 ? BoolValue.ValTrue : BoolValue.ValFalse; }

    public static Value LessThanN(final Value a) { return big(s(a)).compareTo(N) < 0 ? BoolValue.ValTrue : BoolValue.ValFalse; }

    public static Value NMinus(final Value k) { return str(hex32(N.subtract(BigInteger.valueOf(((IntValue) k).val)))); }

    public static Value IsPoint(final Value p) { return parse(s(p)) != null ? BoolValue.ValTrue : BoolValue.ValFalse; }

    public static Value PointAdd(final Value a, final Value b) { return str(ser(add(need(s(a)), need(s(b))))); }

    public static Value PointMul(final Value k, final Value p) { return str(ser(mul(big(s(k)), need(s(p))))); }

    public static Value PointNeg(final Value p) {
        Pt q = need(s(p));
        return str(ser(new Pt(q.x, P.subtract(q.y))));
    }

    public static Value GMul(final Value k) { return str(ser(mul(big(s(k)), new Pt(GX, GY)))); }

    public static Value Uncompress(final Value p) {
        Pt q = need(s(p));
        return str("04" + hex32(q.x) + hex32(q.y));
    }
}
