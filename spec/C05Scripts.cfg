INIT Init
NEXT Next
