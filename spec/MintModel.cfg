SPECIFICATION Spec
CONSTANTS
  Limits = {0}
  Mpp = {FALSE}
  MaxOut = 6
  MaxMq = 2
  MaxLq = 1
  MaxOps = 4
  Amts = {2, 5}
  Fees = {0, 1000}
  Sim = FALSE
  Profile = {"mintquote","settle","notify","pollmint","mint","swap","meltquote","melt","pollmelt","checkstate","rotate","restart"}
INVARIANTS
  Inv_NoDoubleSpend
  Inv_NoInflation
  Inv_IssueOnce
  Inv_OneActive
  Inv_NoBoth
PROPERTY SpentForever
VIEW View
CHECK_DEADLOCK FALSE
