----------------------------- MODULE CryptoCheck -----------------------------
(***************************************************************************)
(* Reference evaluation: every line of the log records an exported         *)
(* function of the implementation with its inputs and its actual output;   *)
(* TLC recomputes the value with Derive / Bdhke and compares.              *)
(***************************************************************************)
EXTENDS Bdhke, Json, IOUtils, FiniteSets, SequencesExt

Log == ndJsonDeserialize(IOEnv.VERIF_TRACE)

Expected(r) ==
  CASE r.fn = "HashToCurve" -> HashToCurve(r.msg)
    [] r.fn = "KeysetId" -> KeysetId(r.keys)
    [] r.fn = "MintKeysetId" -> MintKeysetId(r.seed, r.idx)
    [] r.fn = "MintPubKey" -> GMul(CKD(MintKeysetPath(r.seed, r.idx), r.i, TRUE).k)
    [] r.fn = "Nut13Secret" -> Nut13Secret(r.seed, r.id, r.ctr)
    [] r.fn = "Nut13R" -> Nut13R(r.seed, r.id, r.ctr)
    [] r.fn = "Blind" -> Blind(r.secret, r.r)
    [] r.fn = "Sign" -> Sign(r.B_, r.k)
    [] r.fn = "Unblind" -> Unblind(r.C_, r.r, r.K)
    [] r.fn = "Verify" -> IF Verify(r.secret, r.k, r.C) THEN "true" ELSE "false"
    [] r.fn = "HashE" -> HashE(r.R1, r.R2, r.A, r.C_)
    [] r.fn = "DleqVerify" -> IF DleqVerify(r.e, r.s, r.A, r.B_, r.C_) THEN "true" ELSE "false"
    [] r.fn = "ProofDleqVerify" -> IF ProofDleqVerify(r.secret, r.C, r.e, r.s, r.r, r.A) THEN "true" ELSE "false"
    [] OTHER -> "unknown-function"

\* lines with a `want` field additionally state what the property demands (tamper table: "false")
Bad == {i \in DOMAIN Log :
          \/ Expected(Log[i]) # Log[i].out
          \/ ("want" \in DOMAIN Log[i] /\ Log[i].want # Log[i].out)
          \/ ("sameas" \in DOMAIN Log[i] /\ Log[i].sameas # Log[i].out)}
ByFn == [f \in {Log[i].fn : i \in DOMAIN Log} |-> Cardinality({i \in DOMAIN Log : Log[i].fn = f})]

ASSUME ndJsonSerialize(IOEnv.VERIF_TAGS,
         <<[bad |-> SetToSeq(Bad), n |-> Len(Log), byfn |-> ByFn,
            expected |-> [i \in 1..Cardinality(Bad) |-> Expected(Log[SetToSeq(Bad)[i]])]]>>)

VARIABLE x
Init == x = 0
Next == x' = x
=============================================================================
