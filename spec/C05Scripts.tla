----------------------------- MODULE C05Scripts -----------------------------
(***************************************************************************)
(* C05: the fault space the property names, enumerated completely: every   *)
(* script of Lightning backend answers of total length <= 4 - the pay call *)
(* answering success / pending / failed / transport error, followed by any *)
(* sequence of status-lookup answers - with each lookup after the melt     *)
(* call made through a melt-quote poll or a proof-state check, in every    *)
(* order.  Each script becomes a history on the real mint (melt, the       *)
(* polls / checks, then a swap of the same inputs and a second melt        *)
(* attempt); MintAPI's C05 table (C05Allowed, MeltHow, PollHow) judges it. *)
(***************************************************************************)
EXTENDS Integers, Sequences, FiniteSets, TLC, Json, IOUtils, SequencesExt

Pay == {"success", "pending", "failed", "error"}
Status == {"notfound", "error", "failed", "pending", "succeeded"}
Via == {"poll", "check"}

Seqs(T, n) == UNION {[1..k -> T] : k \in 0..n}

\* after a failed / errored pay call the melt itself makes the first lookup
InMelt(pay, st) == IF pay \in {"failed", "error"} /\ Len(st) > 0 THEN 1 ELSE 0

Scripts ==
  UNION {{[pay |-> p, status |-> st, via |-> v] : v \in [1..(Len(st) - InMelt(p, st)) -> Via]} : p \in Pay, st \in Seqs(Status, 3)}

Ser(c) == [pay |-> c.pay, status |-> [i \in 1..Len(c.status) |-> c.status[i]], via |-> [i \in 1..Len(c.via) |-> c.via[i]]]
ASSUME LET cs == SetToSeq(Scripts) IN ndJsonSerialize(IOEnv.VERIF_OUT, [i \in DOMAIN cs |-> Ser(cs[i])])
ASSUME PrintT(<<"CASES", Cardinality(Scripts)>>)

VARIABLE x
Init == x = 0
Next == x' = x
=============================================================================
