------------------------------- MODULE Wallet -------------------------------
(***************************************************************************)
(* Wallets, mints, tokens and Lightning as users rely on them (C17, C18,   *)
(* C19, C08).  The abstract state is the projection P of the whole world:  *)
(*   P.wallets[w] = [bal, pend, bymint, proofs, pending, ctr]              *)
(*        proofs / pending : sequences of [id, amt, mint, ks, mstate, ...] *)
(*        (mstate is the proof's state at its mint: unspent/pending/spent) *)
(*   P.tokens[t]  = [mint, from, locked, proofs]  tokens handed to callers *)
(*   P.mints[m]   = [balance, fees, active, minted_in, melted_out, ...]    *)
(* Operations are specified by pre/post-conditions, not by the proof       *)
(* selection algorithm.  Inv(P) are the state invariants; Step(P, e, Q)    *)
(* the per-operation conditions; both return sets of <<property, reason>>. *)
(***************************************************************************)
EXTENDS Integers, Sequences, FiniteSets, FiniteSetsExt, SequencesExt, TLC

SeqSet(s) == {s[i] : i \in DOMAIN s}
SumSq(s, F(_)) == FoldSeq(LAMBDA x, acc : acc + F(x), 0, s)
SumOver(T, F(_)) == FoldSet(LAMBDA x, acc : acc + F(x), 0, T)
Ids(s) == {s[i].id : i \in DOMAIN s}
Val(s) == SumSq(s, LAMBDA p : p.amt)
Distinct(s) == Cardinality(Ids(s)) = Len(s)
Live(p) == p.mstate # "spent"

W(P) == DOMAIN P.wallets
M(P) == DOMAIN P.mints

\* every proof record the world knows about, as a set of [id, amt, mint, mstate]
Holdings(P) ==
  LET norm(p) == [id |-> p.id, amt |-> p.amt, mint |-> p.mint, mstate |-> p.mstate]
  IN UNION {{norm(p) : p \in SeqSet(P.wallets[w].proofs) \cup SeqSet(P.wallets[w].pending)} : w \in W(P)}
     \cup UNION {{norm(p) : p \in SeqSet(P.tokens[t].proofs)} : t \in DOMAIN P.tokens}

LiveValueAt(P, m) == SumOver({h \in Holdings(P) : h.mint = m /\ Live(h)}, LAMBDA h : h.amt)

-----------------------------------------------------------------------------
(* State invariants                                                        *)

\* proofs that are at once in a wallet's spendable store and in an outstanding token.  A restore legitimately creates this
\* situation (the seed's outputs that sit in tokens handed out are unspent, so they are restored); whoever redeems the token
\* later makes the restored copy spent without the wallet being able to know.  Such proofs are exempt from "every spendable
\* proof is unspent at the mint" from the restore on (WalletTrace keeps the set).
DoubleHeld(P) ==
  UNION {Ids(P.wallets[w].proofs) : w \in W(P)} \cap UNION {Ids(P.tokens[t].proofs) : t \in DOMAIN P.tokens}

InvX(P, exempt) ==
  UNION {
    \* C17: the reported balance is exactly the value of the spendable proofs, all unspent at the mint
    (IF P.wallets[w].bal = Val(P.wallets[w].proofs) THEN {} ELSE {<<"C17", "balance-is-not-sum-of-spendable:" \o w>>})
    \cup (IF \A p \in SeqSet(P.wallets[w].proofs) : p.mstate = "unspent" \/ p.id \in exempt THEN {}
          ELSE {<<"C17", "spendable-proof-not-unspent-at-mint:" \o w>>})
    \cup (IF SumOver(DOMAIN P.wallets[w].bymint, LAMBDA m : P.wallets[w].bymint[m]) = P.wallets[w].bal THEN {}
          ELSE {<<"C17", "balance-by-mints-differs:" \o w>>})
    \* C17: the pending balance is exactly the value of the pending proofs
    \cup (IF P.wallets[w].pend = Val(P.wallets[w].pending) THEN {} ELSE {<<"C17", "pending-balance-is-not-sum:" \o w>>})
    \* C17: no proof is offered or counted twice
    \cup (IF Distinct(P.wallets[w].proofs) /\ Distinct(P.wallets[w].pending)
             /\ Ids(P.wallets[w].proofs) \cap Ids(P.wallets[w].pending) = {} THEN {}
          ELSE {<<"C17", "proof-held-twice:" \o w>>})
    : w \in W(P)}
  \cup (IF \A w1, w2 \in W(P) : w1 # w2 => Ids(P.wallets[w1].proofs) \cap Ids(P.wallets[w2].proofs) = {} THEN {}
        ELSE {<<"C17", "proof-spendable-in-two-wallets">>})
  \* C17: no value lost - everything unspent at a mint is held by a wallet or sits in an outstanding token
  \cup UNION {
         (IF P.mints[m].balance - P.mints[m].retired < LiveValueAt(P, m) THEN {<<"C17", "holdings-exceed-mint-balance:" \o m>>} ELSE {})
       : m \in M(P)}

Inv(P) == InvX(P, {})

-----------------------------------------------------------------------------
(* Per-operation conditions                                                 *)

FeeOf(P, proofs) ==
  (SumSq(proofs, LAMBDA p : IF p.ks \in DOMAIN P.mints[p.mint].fees THEN P.mints[p.mint].fees[p.ks] ELSE 0) + 999) \div 1000

AtMint(s, m) == SelectSeq(s, LAMBDA p : p.mint = m)

RECURSIVE PopCount(_)
PopCount(v) == IF v = 0 THEN 0 ELSE (v % 2) + PopCount(v \div 2)
\* the fee a recipient pays for a fee-inclusive send of `amt` made of fresh proofs on a keyset with `ppk`:
\* the least f that can be carried by k proofs (PopCount(f) <= k <= f) such that the fee of all proofs sent,
\* ceil((PopCount(amt) + k) * ppk / 1000), is f itself; -1 if there is none below the search bound
FeeFits(amt, ppk, f) == \E k \in PopCount(f)..f : ((PopCount(amt) + k) * ppk + 999) \div 1000 = f
SentFee(amt, ppk) ==
  IF ppk = 0 THEN 0
  ELSE IF \E f \in 1..80 : FeeFits(amt, ppk, f) THEN CHOOSE f \in 1..80 : FeeFits(amt, ppk, f) /\ \A g \in 1..(f - 1) : ~FeeFits(amt, ppk, g)
  ELSE -1

SendStep(P, e, Q) ==
  LET w == e.a.w
      m == e.a.m
      held == AtMint(P.wallets[w].proofs, m)
  IN IF e.r.ok
     THEN LET tok == Q.tokens[e.r.tok].proofs IN
          \* C18: exactly the amount, or the amount plus the fee the mint will charge for those very proofs
          (IF e.r.value = e.a.amt + (IF e.a.fees THEN e.r.tokfee ELSE 0) THEN {}
           ELSE {<<"C18", IF e.a.fees THEN "send-with-fees-not-exact" ELSE "send-not-exact">>})
          \cup (IF e.r.distinct /\ Distinct(tok) THEN {} ELSE {<<"C18", "sent-proofs-not-distinct">>, <<"C17", "proof-offered-twice-in-one-token">>})
          \cup (IF \A p \in SeqSet(tok) : p.mstate = "unspent" THEN {} ELSE {<<"C18", "sent-proof-not-unspent">>})
          \cup (IF Ids(tok) \cap Ids(Q.wallets[w].proofs) = {} THEN {} ELSE {<<"C18", "sent-proof-still-spendable">>})
          \cup (IF Q.wallets[w].bal <= P.wallets[w].bal - e.r.value THEN {} ELSE {<<"C18", "balance-not-reduced-by-sent-value">>})
     ELSE \* C18 liveness: a send of no more than the balance at that mint minus the fee of spending every proof
          \* held there and the fee of the proofs sent must succeed
          LET ppk == P.mints[m].fees[P.mints[m].active]
              sf == IF e.a.fees THEN SentFee(e.a.amt, ppk) ELSE 0
          IN IF ~e.r.panic /\ e.a.amt >= 1 /\ sf >= 0 /\ e.a.amt + sf + FeeOf(P, held) <= Val(held)
             THEN {<<"C18", "send-refused-within-balance/" \o
                          (IF Cardinality({held[i].ks : i \in DOMAIN held}) > 1 THEN "proofs-on-several-keysets" ELSE "one-keyset")>>}
             ELSE {}

ReceiveStep(P, e, Q) ==
  IF e.r.skipped THEN {}
  ELSE IF e.r.ok
  THEN (IF Q.wallets[e.a.w].bal = P.wallets[e.a.w].bal + e.r.amount THEN {} ELSE {<<"C17", "receive-balance-delta">>})
       \* same mint, no swap to another mint: the recipient nets the token value minus the mint's input fee
       \cup (IF (e.a.swap /\ e.a.tokmint # e.a.default) \/ e.r.amount = e.a.value - e.a.tokfee THEN {}
             ELSE {<<"C18", "recipient-does-not-net-value-minus-fee">>})
  ELSE {}

MintStep(P, e, Q) ==
  IF e.r.ok
  THEN (IF e.r.amount = e.a.amt /\ Q.wallets[e.a.w].bal = P.wallets[e.a.w].bal + e.a.amt THEN {}
        ELSE {<<"C17", "mint-balance-delta">>})
  ELSE {}

\* C19: restoring from the mnemonic recovers every unspent deterministic proof of that seed
SeedOutputs(P, w) ==
  {[id |-> p.id, amt |-> p.amt] : p \in {x \in SeqSet(P.wallets[w].proofs) \cup SeqSet(P.wallets[w].pending) : Live(x) /\ ~x.locked}}
  \cup UNION {{[id |-> p.id, amt |-> p.amt] : p \in {x \in SeqSet(P.tokens[t].proofs) : Live(x) /\ ~x.locked}}
              : t \in {t \in DOMAIN P.tokens : P.tokens[t].from = w}}
RestoreStep(P, e, Q) ==
  IF e.r.ok
  THEN LET \* the mint-side truth: the value of the seed's signed outputs that are not spent at their mint.  The restore's own
           \* state checks make the mint look up in-flight payments, so what is live can change while it runs: both the value
           \* before and the value after are acceptable (each output is looked at once, somewhere in between).
           \* Fault-free, what the wallet and its outstanding tokens held before is a third, independent witness.
           held == SumOver(SeedOutputs(P, e.a.w), LAMBDA p : p.amt)
           got == Q.wallets[e.a.w].bal + Q.wallets[e.a.w].pend
           lo == IF e.a.seedlivepost < e.a.seedlive THEN e.a.seedlivepost ELSE e.a.seedlive
           hi == IF e.a.seedlivepost < e.a.seedlive THEN e.a.seedlive ELSE e.a.seedlivepost
           okMint == lo <= got /\ got <= hi
           okHeld == ~e.a.aftercrash /\ got = held
           sfx == IF e.a.aftercrash THEN "-after-crash" ELSE ""
       IN IF okMint \/ okHeld THEN {}
          ELSE {<<"C19", (IF got < lo THEN "restore-incomplete" ELSE "restore-exceeds-seed-outputs") \o sfx>>}
  ELSE {<<"C19", "restore-failed">>}

\* C17, no value lost: what is unspent at a mint and held by nobody.  Reported at the step that loses it (with what kind of
\* step it was), not again at every later step.
Lost(P, m) == IF m \in M(P) THEN P.mints[m].balance - P.mints[m].retired - LiveValueAt(P, m) ELSE 0
LossContext(e) ==
  IF e.ev = "receive" /\ ~e.r.ok /\ ~e.r.skipped
  THEN "/failed-receive/" \o e.a.lockclass \o (IF e.a.swap /\ e.a.tokmint # e.a.default THEN "/swap-to-trusted" ELSE "")
       \o (IF e.a.inlist THEN "" ELSE "/mint-not-in-list")
  ELSE ""
ConservationTags(P, e, Q) ==
  UNION {IF Lost(Q, m) > 0 /\ Lost(Q, m) > Lost(P, m) THEN {<<"C17", "value-lost" \o LossContext(e) \o ":" \o m>>} ELSE {} : m \in M(Q)}

Step(P, e, Q) ==
  ConservationTags(P, e, Q) \cup
  (IF e.r.panic THEN {<<"C17", "wallet-operation-panicked:" \o e.ev>>} ELSE {})
  \cup (CASE e.ev \in {"send", "sendlocked", "sendhtlc"} -> SendStep(P, e, Q)
          [] e.ev = "receive" -> ReceiveStep(P, e, Q)
          [] e.ev = "mint" -> MintStep(P, e, Q)
          [] e.ev = "restore" -> RestoreStep(P, e, Q)
          [] OTHER -> {})

-----------------------------------------------------------------------------
(* What the mint sees (C08) and counter discipline (C19), per HTTP request   *)

ReqTags(r) ==
     (IF r.leaked_r > 0 \/ r.r_field THEN {<<"C08", "blinding-factor-in-request:" \o r.path>>} ELSE {})
  \cup (IF r.leaked_secret > 0 THEN {<<"C08", "output-secret-in-request:" \o r.path>>} ELSE {})
  \cup (IF r.panic THEN {<<"C06", "handler-panicked:" \o r.path>>} ELSE {})
  \* C17, no value lost: a swap the wallet makes gives up exactly the fee the mint charges for its inputs, not more
  \* (a melt may overpay: this mint returns no change)
  \cup (IF r.path = "swap" /\ r.status = 200 /\ r.insum - r.outsum > r.fee THEN {<<"C17", "swap-burns-more-than-the-fee">>} ELSE {})

\* signed : [<<wallet, keyset>> -> set of counters whose output has been signed]
Key(o) == <<o.w, o.ks>>
CountersOf(signed, k) == IF k \in DOMAIN signed THEN signed[k] ELSE {}
ReuseTags(signed, r) ==
  IF r.path \in {"swap", "mint/bolt11", "melt/bolt11"} /\ \E i \in DOMAIN r.outs : r.outs[i].c \in CountersOf(signed, Key(r.outs[i]))
  THEN {<<"C19", "counter-reused:" \o r.path>>} ELSE {}
AddSigned(signed, r) ==
  IF ~r.signed THEN signed
  ELSE LET ks == {Key(r.outs[i]) : i \in DOMAIN r.outs}
       IN [k \in DOMAIN signed \cup ks |->
             CountersOf(signed, k) \cup {r.outs[i].c : i \in {j \in DOMAIN r.outs : Key(r.outs[j]) = k}}]
Max0(T) == IF T = {} THEN -1 ELSE Max(T)
CounterTags(signed, Q) ==
  UNION {IF k[1] \in W(Q) /\ k[2] \in DOMAIN Q.wallets[k[1]].ctr /\ Q.wallets[k[1]].ctr[k[2]] <= Max0(signed[k])
         THEN {<<"C19", "stored-counter-not-past-signed:" \o k[1]>>} ELSE {} : k \in DOMAIN signed}
=============================================================================
