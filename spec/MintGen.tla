------------------------------ MODULE MintGen ------------------------------
(***************************************************************************)
(* The mint model as a state machine: MintAPI's operators driven by a menu *)
(* of honest and adversarial requests and environment events.  Used        *)
(*  (a) exhaustively with small constants (MintModel.cfg): TLC checks the  *)
(*      state invariants of MintAPI in every reachable state;              *)
(*  (b) in simulation mode (MintGen.cfg, Sim = TRUE): every behaviour is a *)
(*      history of abstract operations, printed as JSON and replayed on    *)
(*      the real mint by the harness, whose recorded trace is then         *)
(*      validated by MintTrace.                                            *)
(* The model assumes the mint behaves as MintAPI says (accept iff no cause *)
(* holds); the real replies are judged by the monitor, not here.           *)
(***************************************************************************)
EXTENDS MintAPI, Json

CONSTANTS Limits,     \* set of limit configurations, each encoded as maxbal * 10000 + maxmint * 100 + maxmelt (0 = unset)
          Mpp,        \* set of BOOLEAN: is NUT-15 enabled
          MaxOut,     \* bound on blinded messages ever created
          MaxMq,      \* bound on mint quotes
          MaxLq,      \* bound on melt quotes
          MaxOps,     \* history length
          Amts,       \* amounts used for quotes
          Fees,       \* input_fee_ppk values for rotations
          Sim,        \* TRUE: one random instance per action (history generation)
          Profile     \* set of action names enabled in this configuration

VARIABLES S, nb, nmq, nlq, n, hist, done
vars == <<S, nb, nmq, nlq, n, hist, done>>

Pick(T) == IF Sim /\ T # {} THEN {RandomElement(T)} ELSE T
On(name) == name \in Profile
\* in simulation mode an action guarded by Often(w) is offered in about w percent of the steps
Often(w) == Sim => RandomElement(1..100) <= w

Bid(i) == "b" \o ToString(i)
Sid(i) == "s" \o ToString(i)
Mq(i) == "mq" \o ToString(i)
Lq(i) == "lq" \o ToString(i)

ActiveKs == CHOOSE k \in DOMAIN S.ks : S.ks[k].active
Denoms == {1, 2, 4, 8, 16}

\* binary split of an amount into at most 3 denominations (larger amounts are not used)
RECURSIVE Split(_, _)
Split(v, d) == IF v = 0 \/ d = 0 THEN << >>
               ELSE IF v >= d THEN <<d>> \o Split(v - d, d) ELSE Split(v, d \div 2)
SplitOf(v) == Split(v, 16)

-----------------------------------------------------------------------------
(* facts and harness specs of outputs                                        *)

OutFact(i, ks, amt, lock) ==
  [b |-> Bid(i), sec |-> Sid(i), ks |-> ks, amt |-> amt, big |-> "", amtkey |-> amt \in Denoms,
   form |-> "ok", lock |-> lock]
OutSpec(ks, amt, lock) == [amt |-> amt, ks |-> ks, b |-> "new", lock |-> lock]

\* fresh outputs for a sequence of amounts on keyset spec `ksSpec` ("active" or a keyset id)
FreshFacts(amts, ksSpec, lock) ==
  LET ks == IF ksSpec = "active" THEN ActiveKs ELSE ksSpec
  IN [i \in 1..Len(amts) |-> OutFact(nb + i, ks, amts[i], lock)]
FreshSpecs(amts, ksSpec, lock) == [i \in 1..Len(amts) |-> OutSpec(ksSpec, amts[i], lock)]

ReuseFact(b) == [b |-> b, sec |-> S.sig[b].sec, ks |-> S.sig[b].ks, amt |-> S.sig[b].amt, big |-> "",
                 amtkey |-> TRUE, form |-> "ok", lock |-> "none"]
ReuseSpec(b) == [amt |-> S.sig[b].amt, ks |-> S.sig[b].ks, b |-> b, lock |-> ""]

-----------------------------------------------------------------------------
(* facts of inputs                                                           *)

OtherDenom(a) == IF a = 1 THEN 2 ELSE a \div 2
OtherKs(k) == IF \E x \in DOMAIN S.ks : x # k THEN CHOOSE x \in DOMAIN S.ks : x # k ELSE "kunknown"

InVariants == {"", "wit", "dleq", "amtx", "ksx", "ksunknown", "cx", "cgarbage", "secedit"}

InFact(p, var) ==
  LET g == S.sig[p]
      lock == IF g.sec \in DOMAIN S.proof THEN S.proof[g.sec].lock ELSE "none"
      other == IF \E x \in DOMAIN S.sig : x # p THEN CHOOSE x \in DOMAIN S.sig : x # p ELSE p
  IN [p |-> p,
      sec |-> IF var = "secedit" THEN g.sec \o "x" ELSE g.sec,
      ks |-> IF var = "ksx" THEN OtherKs(g.ks) ELSE IF var = "ksunknown" THEN "kunknown" ELSE g.ks,
      amt |-> IF var = "amtx" THEN OtherDenom(g.amt) ELSE g.amt,
      big |-> "", amtkey |-> TRUE,
      corig |-> IF var = "cx" THEN other ELSE IF var = "cgarbage" THEN "garbage" ELSE p,
      signer |-> IF var = "wit" THEN "garbage" ELSE IF var = "nosign" THEN "none"
                 ELSE IF var = "signother" THEN "K9" ELSE lock,
      lock |-> lock,
      wit |-> IF var \in {"wit", "signother"} THEN "w-" \o p \o var
              ELSE IF var = "nosign" \/ lock = "none" THEN "none" ELSE "w-" \o p,
      dleq |-> var = "dleq", long |-> FALSE, var |-> var]

InSpecOf(p, var) ==
  [p |-> p,
   var |-> CASE var = "amtx" -> "amt:" \o ToString(OtherDenom(S.sig[p].amt))
             [] var = "ksx" -> "ks:" \o OtherKs(S.sig[p].ks)
             [] var = "cx" -> "c:" \o (IF \E x \in DOMAIN S.sig : x # p THEN CHOOSE x \in DOMAIN S.sig : x # p ELSE p)
             [] var = "signother" -> "sign:K9"
             [] OTHER -> var]

Signed == DOMAIN S.sig
Unspent == {b \in Signed : ProofSt(S, S.sig[b].sec) = "unspent"}

\* input lists: one proof (any variant), two distinct proofs, or the same proof twice
InputChoices ==
  LET lockVars(p) == IF S.sig[p].sec \in DOMAIN S.proof /\ S.proof[S.sig[p].sec].lock # "none"
                     THEN {"", "nosign", "signother"} ELSE InVariants
  IN    {<< <<p, v>> >> : p \in Signed, v \in InVariants}
   \cup {<< <<p, "">>, <<q, "">> >> : p \in Unspent, q \in Unspent}
   \cup {<< <<p, "">>, <<p, v>> >> : p \in Signed, v \in {"", "wit", "dleq", "amtx"}}
   \cup {<< <<p, v>> >> : p \in {x \in Signed : S.sig[x].sec \in DOMAIN S.proof /\ S.proof[S.sig[x].sec].lock # "none"},
                           v \in {"nosign", "signother"}}
   \cup {<< >>}     \* a request without any input

\* honest input lists: up to three distinct unspent proofs worth at least `need` plus their fee
HonestChoices(need) ==
  {ch \in {[i \in 1..Cardinality(T) |-> <<SetToSeq(T)[i], "">>] : T \in {X \in SUBSET Unspent : Cardinality(X) \in 1..3}} :
     LET f == [i \in DOMAIN ch |-> InFact(ch[i][1], "")] IN InSum(f) >= need + Fee(S, f)}

InFacts(ch) == [i \in DOMAIN ch |-> InFact(ch[i][1], ch[i][2])]
InSpecs(ch) == [i \in DOMAIN ch |-> InSpecOf(ch[i][1], ch[i][2])]

-----------------------------------------------------------------------------
Record(op) == hist' = Append(hist, op) /\ n' = n + 1 /\ done' = done

\* every generated history starts funded: one quote of 13 paid and minted as 8+4+1,
\* the 4 locked to key K1 (P2PK) so that witness-carrying proofs take part in every flow
FundAmts == <<8, 4, 1>>
FundLocks == <<"none", "K1", "none">>
FundedState(f, lim, mpp) ==
  LET S0 == [InitState([k \in {"k0"} |-> [fee |-> f, active |-> TRUE]], lim) EXCEPT !.mpp = mpp]
      S1 == LnSettle(NewMintQuote(S0, "mq1", [amt |-> 13, lock |-> "none"]), "mq1")
      a == [q |-> "mq1", outs |-> [i \in 1..3 |-> OutFact(i, "k0", FundAmts[i], FundLocks[i])], ovf |-> FALSE, sig |-> "none", lnerr |-> FALSE]
  IN MintEffect(SyncMq(S1, "mq1", FALSE), a, << >>)
FundedHist(f, lim, mpp) ==
  <<[op |-> "cfg", fee |-> f, limits |-> lim, mpp |-> mpp], [op |-> "mintquote", amt |-> 13, lock |-> "none"], [op |-> "settle", q |-> "mq1"],
    [op |-> "mint", q |-> "mq1", outs |-> [i \in 1..3 |-> OutSpec("active", FundAmts[i], FundLocks[i])], sig |-> "none"]>>

Init ==
  \* no Pick here: TLC computes the initial states once, the simulator then draws one per behaviour
  /\ \E f \in Fees, lc \in Limits, mpp \in Mpp :
       LET lim == [maxbal |-> lc \div 10000, maxmint |-> (lc \div 100) % 100, maxmelt |-> lc % 100] IN
       /\ S = FundedState(f, lim, mpp)
       /\ hist = FundedHist(f, lim, mpp)
  /\ nb = 3 /\ nmq = 1 /\ nlq = 0 /\ n = 0 /\ done = FALSE

\* quote ids whose request the model refused: following them up costs nothing when the implementation refused
\* too, and walks the money path of the quote when it did not
GhostMq == {Mq(i) : i \in 1..nmq} \ DOMAIN S.mq
GhostLq == {Lq(i) : i \in 1..nlq} \ DOMAIN S.lq

MintQuoteAct ==
  /\ On("mintquote") /\ nmq < MaxMq /\ Often(50)
  /\ \E amt \in Pick(Amts), lock \in Pick({"none", "none", "K1"}) :
       LET a == [amt |-> amt, lock |-> lock, unit |-> "sat", big |-> ""]
           accepted == MintQuoteCauses(S, a, Balance(S)) = {}
       IN /\ S' = IF accepted THEN NewMintQuote(S, Mq(nmq + 1), a) ELSE S
          /\ nmq' = nmq + 1      \* ids are given per request: a refused request leaves a ghost id behind
          /\ Record([op |-> "mintquote", amt |-> amt, lock |-> lock, x |-> [c |-> MintQuoteCauses(S, a, Balance(S)), v |-> << >>]])
  /\ UNCHANGED <<nb, nlq>>

SettleAct ==
  /\ On("settle")
  /\ \E q \in Pick({q \in DOMAIN S.mq : ~S.mq[q].settled} \cup (IF Sim /\ Often(30) THEN GhostMq ELSE {})) :
       /\ S' = LnSettle(S, q)
       /\ Record([op |-> "settle", q |-> q])
  /\ UNCHANGED <<nb, nmq, nlq>>

NotifyAct ==
  /\ On("notify") /\ Often(40)
  /\ \E q \in Pick({q \in DOMAIN S.mq : S.mq[q].settled}) :
       /\ S' = Notify(S, q)
       /\ Record([op |-> "notify", q |-> q])
  /\ UNCHANGED <<nb, nmq, nlq>>

PollMintAct ==
  /\ On("pollmint") /\ Often(30)
  /\ \E q \in Pick(DOMAIN S.mq) :
       /\ S' = SyncMq(S, q, FALSE)
       /\ Record([op |-> "pollmint", q |-> q])
  /\ UNCHANGED <<nb, nmq, nlq>>

\* output amount lists for a value v: exact split, one unit less, one unit more, and (rarely) no outputs at all
AmountLists(v) ==
  {SplitOf(v)} \cup (IF v > 1 THEN {SplitOf(v - 1)} ELSE {}) \cup {SplitOf(v) \o <<1>>}
  \cup (IF Sim /\ Often(12) THEN {<< >>} ELSE {})

MintAct ==
  /\ On("mint")
  /\ \E q \in Pick(LET paid == {x \in DOMAIN S.mq : EffMq(S.mq[x]) = "PAID"}
                   IN IF GhostMq # {} /\ Sim /\ Often(20) THEN GhostMq
                      ELSE IF paid # {} /\ Often(75) THEN paid ELSE DOMAIN S.mq) :
     \E amts \in Pick(AmountLists(IF q \in DOMAIN S.mq THEN S.mq[q].amt ELSE 2)) :
     \E sig \in Pick(IF q \notin DOMAIN S.mq \/ S.mq[q].lock = "none" THEN {"none"} ELSE {"valid", "valid", "none", "garbage", "wrongkey", "otherquote", "reordered", "removed"}) :
     \E reuse \in Pick({FALSE, FALSE, FALSE, TRUE}) :
       /\ nb + Len(amts) <= MaxOut
       /\ LET useOld == reuse /\ Signed # {}
              old == CHOOSE b \in Signed : TRUE
              facts == IF useOld THEN <<ReuseFact(old)>> ELSE FreshFacts(amts, "active", "none")
              specs == IF useOld THEN <<ReuseSpec(old)>> ELSE FreshSpecs(amts, "active", "none")
              a == [q |-> q, outs |-> facts, ovf |-> FALSE, sig |-> sig, lnerr |-> FALSE]
              Ss == SyncMq(S, q, FALSE)
          IN /\ S' = IF MintCauses(S, a) = {} THEN MintEffect(Ss, a, << >>) ELSE Ss
             /\ nb' = IF useOld THEN nb ELSE nb + Len(amts)
             /\ Record([op |-> "mint", q |-> q, outs |-> specs, sig |-> sig,
                        x |-> [c |-> MintCauses(S, a), v |-> <<sig, useOld, Len(amts), IF q \in DOMAIN S.mq THEN EffMq(S.mq[q]) ELSE "ghost">>]])
  /\ UNCHANGED <<nmq, nlq>>

SwapAct ==
  /\ On("swap")
  /\ \E ch \in Pick(IF HonestChoices(1) # {} /\ Often(55) THEN HonestChoices(1) ELSE InputChoices) :
     LET ins == InFacts(ch)
         net == InSum(ins) - Fee(S, ins)
     IN \E amts \in Pick(IF net >= 1 THEN AmountLists(net) ELSE {<<1>>}) :
        \E lock \in Pick({"none", "none", "none", "K1"}) :
        \E ksSpec \in Pick({"active", "active", "active"} \cup (DOMAIN S.ks \ {ActiveKs})) :
        \E reuse \in Pick({FALSE, FALSE, FALSE, FALSE, FALSE, TRUE}) :
          /\ nb + Len(amts) <= MaxOut
          /\ LET \* rarely: one of the outputs is a blinded message the mint has signed before (same amount, if there is one)
                 same == {b \in Signed : Len(amts) > 0 /\ S.sig[b].amt = amts[1] /\ S.sig[b].ks = ActiveKs}
                 useOld == reuse /\ same # {} /\ ksSpec = "active"
                 old == CHOOSE b \in same : TRUE
                 fresh == IF useOld THEN Tail(amts) ELSE amts
                 facts == (IF useOld THEN <<ReuseFact(old)>> ELSE << >>) \o FreshFacts(fresh, ksSpec, lock)
                 specs == (IF useOld THEN <<ReuseSpec(old)>> ELSE << >>) \o FreshSpecs(fresh, ksSpec, lock)
                 a == [ins |-> ins, outs |-> facts, ovf |-> FALSE]
             IN /\ S' = IF SwapCauses(S, a) = {} THEN SwapEffect(S, a, << >>) ELSE S
                /\ nb' = nb + Len(fresh)
                /\ Record([op |-> "swap", ins |-> InSpecs(ch), outs |-> specs,
                           x |-> [c |-> SwapCauses(S, a), v |-> <<Len(ins), lock, ksSpec = "active", useOld, Cardinality(DOMAIN S.ks)>>]])
  /\ UNCHANGED <<nmq, nlq>>

Reserve(amt) == (amt + 99) \div 100

\* the model's own Lightning books: a successful outside payment costs amount + full fee limit,
\* and the model mint hands the backend exactly the reserve as limit
Charge(Sx, q, how) ==
  IF how = "success" /\ q \in DOMAIN Sx.lq /\ Sx.lq[q].kind # "int" /\ Sx.lq[q].truth # "succeeded"
  THEN [Sx EXCEPT !.lnout = @ + (Sx.lq[q].amt + Sx.lq[q].reserve) * 1000, !.lq[q].truth = "succeeded"]
  ELSE Sx

MppMsats == {1500, 2999, 4001, 8000}
MeltQuoteAct ==
  /\ On("meltquote") /\ nlq < MaxLq /\ Often(50)
  /\ \E kind \in Pick({"ext", "ext", "int"} \cup (IF S.mpp THEN {"mpp", "mpp", "mppint"} ELSE IF Often(10) THEN {"mpp"} ELSE {})
                      \cup (IF Sim /\ Often(25) THEN {"forged"} ELSE {})) :
       \/ /\ kind = "ext"
          /\ \E amt \in Pick(Amts), frac \in Pick(IF Sim THEN {0, 0, 0, 1, 500, 999} ELSE {0}) :
               \* an outside invoice need not be a whole number of sats: the quote rounds up
               LET amt2 == IF frac = 0 THEN amt ELSE amt + 1
                   a == [kind |-> "ext", target |-> "", msat |-> 0, invmsat |-> amt * 1000 + frac, amt |-> amt2, unit |-> "sat"]
                   ok == MeltQuoteCauses(S, a) = {}
               IN /\ S' = IF ok THEN NewMeltQuote(S, Lq(nlq + 1), a, [amt |-> amt2, reserve |-> Reserve(amt2)]) ELSE S
                  /\ nlq' = nlq + 1
                  /\ Record(IF frac = 0 THEN [op |-> "meltquote", kind |-> "ext", amt |-> amt, x |-> [c |-> MeltQuoteCauses(S, a), v |-> <<"ext", 0>>]]
                            ELSE [op |-> "meltquote", kind |-> "ext", amt |-> amt2, msat |-> amt * 1000 + frac, x |-> [c |-> MeltQuoteCauses(S, a), v |-> <<"ext", frac>>]])
       \/ /\ kind = "forged"
          /\ \E t \in Pick(DOMAIN S.mq) :
               \* the model refuses; the ghost id is followed up in case the implementation does not
               /\ S' = S /\ nlq' = nlq + 1
               /\ Record([op |-> "meltquote", kind |-> "forged", q |-> t, msat |-> 1000, x |-> [c |-> {}, v |-> <<"forged", EffMq(S.mq[t])>>]])
       \/ /\ kind = "int"
          /\ \E t \in Pick({q \in DOMAIN S.mq : ~\E x \in DOMAIN S.lq : S.lq[x].target = q}) :
               LET a == [kind |-> "int", target |-> t, msat |-> 0, invmsat |-> S.mq[t].amt * 1000, amt |-> S.mq[t].amt, unit |-> "sat"]
                   ok == MeltQuoteCauses(S, a) = {}
               IN /\ S' = IF ok THEN NewMeltQuote(S, Lq(nlq + 1), a, [amt |-> S.mq[t].amt, reserve |-> 0]) ELSE S
                  /\ nlq' = nlq + 1
                  /\ Record([op |-> "meltquote", kind |-> "int", q |-> t, x |-> [c |-> MeltQuoteCauses(S, a), v |-> <<"int", EffMq(S.mq[t])>>]])
       \/ /\ kind = "mpp"
          /\ \E ms \in Pick(MppMsats) :
               LET a == [kind |-> "mpp", target |-> "", msat |-> ms, invmsat |-> ms * 2 + 1000, amt |-> ms \div 1000, unit |-> "sat"]
                   ok == MeltQuoteCauses(S, a) = {}
               IN /\ S' = IF ok THEN NewMeltQuote(S, Lq(nlq + 1), a, [amt |-> ms \div 1000, reserve |-> Reserve(ms \div 1000)]) ELSE S
                  /\ nlq' = nlq + 1
                  /\ Record([op |-> "meltquote", kind |-> "mpp", msat |-> ms, x |-> [c |-> MeltQuoteCauses(S, a), v |-> <<"mpp", ms % 1000 = 0>>]])
       \/ /\ kind = "mppint"
          /\ \E t \in Pick(DOMAIN S.mq) :
               /\ S' = S /\ nlq' = nlq + 1
               /\ Record([op |-> "meltquote", kind |-> "mppint", q |-> t, msat |-> 1000, x |-> [c |-> {"mppinternal"}, v |-> <<"mppint", EffMq(S.mq[t]), S.mpp>>]])
  /\ UNCHANGED <<nb, nmq>>

PayAnswers == {"success", "pending", "failed", "error"}
StatusAnswers == {"notfound", "error", "failed", "pending", "succeeded"}
LnCalls(q, pay, status) ==
  <<[name |-> "SendPayment", answer |-> pay, feelimit |-> 0, q |-> q]>>
  \o [i \in DOMAIN status |-> [name |-> "OutgoingPaymentStatus", answer |-> status[i], feelimit |-> 0, q |-> q]]

MeltAct ==
  /\ On("melt")
  /\ \E q \in Pick(LET open == {x \in DOMAIN S.lq : S.lq[x].st = "UNPAID"}
                   IN IF GhostLq # {} /\ Sim /\ Often(35) THEN GhostLq
                      ELSE IF open # {} /\ Often(80) THEN open ELSE DOMAIN S.lq \cup GhostLq) :
     \E ch \in Pick(LET hc == HonestChoices(IF q \in DOMAIN S.lq THEN S.lq[q].amt + S.lq[q].reserve ELSE 2)
                    IN IF hc # {} /\ Often(70) THEN hc ELSE InputChoices) :
     \E pay \in Pick(PayAnswers), st \in Pick(StatusAnswers) :
       LET ins == InFacts(ch)
           status == IF pay \in {"failed", "error"} THEN <<st>> ELSE << >>
           a == [q |-> q, ins |-> ins, ln |-> LnCalls(q, pay, status), lnerr |-> FALSE]
       IN /\ S' = IF MeltCauses(S, a) = {} THEN Charge(CHOOSE S2 \in MeltOutcomes(S, a) : TRUE, q, MeltHow(a.ln)) ELSE S
          /\ Record([op |-> "melt", q |-> q, ins |-> InSpecs(ch), pay |-> <<pay>>, status |-> status,
                    x |-> [c |-> MeltCauses(S, a), v |-> <<pay, status, Len(ins), IF q \in DOMAIN S.lq THEN <<S.lq[q].kind, S.lq[q].st>> ELSE <<"ghost", "">> >>]])
  /\ UNCHANGED <<nb, nmq, nlq>>

PollMeltAct ==
  /\ On("pollmelt") /\ Often(60)
  /\ \E q \in Pick(DOMAIN S.lq \cup (IF Sim THEN GhostLq ELSE {})) :
     \E st \in Pick(StatusAnswers) :
       /\ S' = IF q \in DOMAIN S.lq /\ S.lq[q].st = "PENDING"
               THEN Charge(CHOOSE S2 \in PollOutcomes(S, q, LnCalls(q, "none", <<st>>)) : TRUE, q, PollHow(LnCalls(q, "none", <<st>>), q))
               ELSE S
       /\ Record([op |-> "pollmelt", q |-> q, status |-> <<st>>,
                 x |-> [c |-> {}, v |-> <<st, IF q \in DOMAIN S.lq THEN <<S.lq[q].kind, S.lq[q].st>> ELSE <<"ghost", "">> >>]])
  /\ UNCHANGED <<nb, nmq, nlq>>

CheckStateAct ==
  /\ On("checkstate") /\ Often(50)
  /\ \E b \in Pick({b \in Signed : ProofSt(S, S.sig[b].sec) = "pending"}) :
     \E st \in Pick(StatusAnswers) :
       /\ LET q == S.proof[S.sig[b].sec].by
              ln == LnCalls(q, "none", <<st>>)
          IN S' = Charge(CHOOSE S2 \in PollOutcomes(S, q, ln) : TRUE, q, PollHow(ln, q))
       /\ Record([op |-> "checkstate", ys |-> <<b, "unknown">>, status |-> <<st>>, x |-> [c |-> {}, v |-> <<st>>]])
  /\ UNCHANGED <<nb, nmq, nlq>>

RotateAct ==
  /\ On("rotate") /\ Often(15) /\ Cardinality(DOMAIN S.ks) < 3
  /\ \E fee \in Pick(Fees) :
       /\ S' = Rotate(S, fee)
       /\ Record([op |-> "rotate", fee |-> fee])
  /\ UNCHANGED <<nb, nmq, nlq>>

RestartAct ==
  /\ On("restart") /\ Often(15)
  /\ \E rot \in Pick({FALSE, FALSE, TRUE}), fee \in Pick(Fees) :
       /\ rot => Cardinality(DOMAIN S.ks) < 3
       /\ S' = Restart(S, rot, fee)
       /\ Record([op |-> "restart", rotate |-> rot, fee |-> fee,
                 x |-> [c |-> {}, v |-> <<rot, \E q \in DOMAIN S.lq : S.lq[q].st = "PENDING", \E q \in DOMAIN S.mq : EffMq(S.mq[q]) = "PAID">>]])
  /\ UNCHANGED <<nb, nmq, nlq>>

Acts ==
  \/ MintQuoteAct \/ SettleAct \/ NotifyAct \/ PollMintAct \/ MintAct \/ SwapAct
  \/ MeltQuoteAct \/ MeltAct \/ PollMeltAct \/ CheckStateAct \/ RotateAct \/ RestartAct

\* history output in simulation mode: printed once, when the behaviour has its full length
\* (or, rarely, earlier so that shorter histories occur too)
Done ==
  /\ Sim /\ ~done
  /\ n = MaxOps \/ (n >= 4 /\ RandomElement(1..100) <= 2)
  /\ PrintT(<<"HIST", ToJson(hist)>>)
  /\ done' = TRUE
  /\ UNCHANGED <<S, nb, nmq, nlq, n, hist>>

Next == (n < MaxOps /\ ~done /\ Acts) \/ Done

Spec == Init /\ [][Next]_vars

-----------------------------------------------------------------------------
(* invariants for the exhaustive configuration                               *)
Inv_NoDoubleSpend == NoDoubleSpend(S)
Inv_NoInflation == NoInflation(S)
Inv_IssueOnce == IssueOncePerPayment(S)
Inv_OneActive == OneActiveKeyset(S)
Inv_NoBoth == \A s \in DOMAIN S.proof : S.proof[s].st # "both"
SpentForever == [][\A s \in DOMAIN S.proof : S.proof[s].st = "spent" => S'.proof[s].st = "spent"]_vars

View == <<S, nb, nmq, nlq, n>>
=============================================================================
