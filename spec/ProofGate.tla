----------------------------- MODULE ProofGate -----------------------------
(***************************************************************************)
(* C04: the case space of "a valid proof and every single-field mutation   *)
(* of it", presented to swap and melt at every position among honest       *)
(* inputs.  The verdict is NOT defined here: each case becomes a request   *)
(* in a history replayed on the real mint and is judged by MintAPI         *)
(* (InCauses: toolong / unknownks / badamt / badC) through MintTrace, so    *)
(* there is a single definition of what a genuine signature is.            *)
(***************************************************************************)
EXTENDS Integers, Sequences, FiniteSets, TLC, Json, IOUtils, SequencesExt

Keysets == {"k0", "k1", "k2"}          \* k0, k1 inactive after two rotations, k2 active
Amounts == {1, 2, 64, 1024}

\* single-field mutations of a valid proof (harness variant strings)
AmountMut(a) == {"amt:" \o ToString(b) : b \in Amounts \ {a}} \cup {"amt:3", "amt:0", "amtbig:2^59", "amtbig:2^60", "amtbig:2^64-1"}
KeysetMut(k) == {"ks:" \o x : x \in Keysets \ {k}} \cup {"ksunknown", "ksnothex"}
CMut == {"cflipx", "cflippar", "c:other", "c:othersameamt", "cgarbage", "cnothex", "coffcurve", "cempty"}
SecretMut == {"secedit"}
Honest == {"", "dleq", "len512", "len512mb", "p2pk512"}   \* must be accepted (len512: a 512 byte secret; mb: made of two-byte characters;
                                                          \* p2pk512: a well-formed P2PK secret of 512 bytes, spent with its signature)
Oversize == {"len513", "len514mb", "p2pk513"}   \* 513 bytes / 514 bytes in 265 characters / a P2PK secret of 513 bytes with a valid
                                                \* witness: signed by the mint, unspendable

Mutations(k, a) == AmountMut(a) \cup KeysetMut(k) \cup CMut \cup SecretMut \cup Honest \cup Oversize

Positions == {"only", "first", "middle", "last"}
Endpoints == {"swap", "melt"}

Cases == UNION {{[ks |-> k, amt |-> a, mut |-> m, ep |-> e, pos |-> p] :
                    m \in Mutations(k, a), e \in Endpoints, p \in Positions} : k \in Keysets, a \in Amounts}

Thorough == IOEnv.VERIF_TIER = "thorough"
\* quick: every mutation on every keyset/amount at one position per endpoint, plus all positions for one base
Selected == IF Thorough THEN Cases
            ELSE {c \in Cases : \/ (c.ep = "swap" /\ c.pos = "middle")
                                \/ (c.ep = "melt" /\ c.pos = "last" /\ c.amt \in {2, 64})
                                \/ (c.ks = "k1" /\ c.amt = 2)}

ASSUME ndJsonSerialize(IOEnv.VERIF_OUT, SetToSeq(Selected))
ASSUME PrintT(<<"CASES", Cardinality(Selected), Cardinality(Cases)>>)

VARIABLE x
Init == x = 0
Next == x' = x
=============================================================================
