SPECIFICATION Spec
CHECK_DEADLOCK FALSE
POSTCONDITION WriteResult
