----------------------------- MODULE MintSteps -----------------------------
(***************************************************************************)
(* Layer 2: the mint AS IMPLEMENTED (mint/mint.go, mint/invoicesub.go).    *)
(*                                                                         *)
(* One action per storage (MintDB) or Lightning call, in program order per *)
(* request, with the two mutexes of the implementation (proofsMu,          *)
(* mintQuoteMu).  A mutex is taken together with the first call made under *)
(* it and released together with the last one (nothing observable happens  *)
(* in between).  The storage tables are the variables: used (proofs),      *)
(* pend (pending_proofs, keyed by secret, value = melt quote), sigs        *)
(* (blind_signatures), lqs / mqs (quote rows).                             *)
(*                                                                         *)
(* The requests ("procs") and the initial tables come from a scenario file *)
(* (IOEnv.VERIF_SCN, one JSON object).  Uses:                              *)
(*  1. exhaustive TLC run over ALL interleavings of the scenario's procs,  *)
(*     every Lightning outcome and (optionally) a process crash between    *)
(*     any two calls, checking the layer-1 properties (no secret pays      *)
(*     twice, issue at most once per payment, nothing stranded or locked   *)
(*     for good once everything is quiet);                                 *)
(*  2. conformance: the call sequences recorded from the real mint by the  *)
(*     schedule explorer are validated against this module                 *)
(*     (MintStepsTrace), so the result of 1 speaks about the code;         *)
(*  3. a counterexample is a schedule <<proc, call>> that the explorer     *)
(*     replays on the real mint (fixed schedule); only what the real mint  *)
(*     then does is ever reported as a violation.                          *)
(***************************************************************************)
EXTENDS Naturals, Sequences, FiniteSets, TLC, Json, IOUtils

Scn == ndJsonDeserialize(IOEnv.VERIF_SCN)[1]

ToSet(sq) == {sq[i] : i \in 1..Len(sq)}
ProcRecs  == ToSet(Scn.procs)
Procs     == {r.id : r \in ProcRecs}
PR(p)     == CHOOSE r \in ProcRecs : r.id = p
Kind(p)   == PR(p).kind
Q(p)      == PR(p).q
Ins(p)    == ToSet(PR(p).ins)
Outs(p)   == ToSet(PR(p).outs)
IsPost(p) == PR(p).phase = "post"
Secrets   == ToSet(Scn.secrets)
LQs       == {r.q : r \in ToSet(Scn.lq)}
MQs       == {r.q : r \in ToSet(Scn.mq)}
LQR(q)    == CHOOSE r \in ToSet(Scn.lq) : r.q = q
MQR(q)    == CHOOSE r \in ToSet(Scn.mq) : r.q = q
Internal(q) == LQR(q).internal          \* mint quote with the same invoice, or ""
Mutexes   == Scn.mutex                  \* FALSE: the implementation before commit bbe32f5 (must fail)
Crashes   == Scn.crash                  \* a process crash may happen once
Faults    == Scn.faults                 \* one storage call may fail (the call returns an error, the request handles it)
LnFree    == Scn.ln = "any"             \* conformance mode: any Lightning answer at any time
ReleaseByQuote == Scn.releasecheck      \* FALSE: the implementation before commit d621dd9 (must fail)
PollNotFound == Scn.pollnotfound        \* TRUE: a variant in which a poll treats "no such payment" as a failed payment
CheckLocked == Scn.checklocked          \* FALSE: the state check reads the two proof tables without proofsMu (before bbe32f5; must fail)
GuardFrom == Scn.guardfrom              \* "m6": the guard is registered with the PENDING write (the code); "m7": only before the payment (must fail)
PollGuard == Scn.pollguard              \* FALSE: the implementation before the meltsInProgress guard (must fail)

VARIABLES used, pend, sigs, lqs, mqs,   \* storage
          settled, pay, payer,          \* Lightning backend: invoice settled, outgoing payment truth, who funds it
          mu, pc, loc, res,             \* mutex holders, program counters, locals, replies
          uses, issues, pays,           \* ghosts
          crashed, crashAt,             \* crash bookkeeping
          faulted, faultAt,             \* one storage call has failed: <<request, pc>>
          last                          \* label of the step just taken
vars == <<used, pend, sigs, lqs, mqs, settled, pay, payer, mu, pc, loc, res, uses, issues, pays, crashed, crashAt, faulted, faultAt, last>>
View == <<used, pend, sigs, lqs, mqs, settled, pay, payer, mu, pc, loc, res, uses, issues, pays, crashed, crashAt, faulted, faultAt>>

PendSecrets   == {x[1] : x \in pend}
PendOf(q)     == {x[1] : x \in {y \in pend : y[2] = q}}
QuotesOf(ss)  == {x[2] : x \in {y \in pend : y[1] \in ss}}
Loc0          == [a |-> "", rm |-> {}, q |-> ""]
\* Mint.meltsInProgress: quotes between a melt request's PENDING write and its return
\* (the entry is removed by a deferred function that takes proofsMu: pc "ret", a step of its own without a storage call)
InProgPcs     == {"m6", "m7", "m8", "ms1", "ms2", "ms3", "r1", "r2", "r3", "i1", "i2", "i3"}
InProgress(q) == PollGuard /\ \E p \in Procs : Kind(p) = "melt" /\ Q(p) = q
                                /\ pc[p] \in (InProgPcs \cup {"ret"}) \ (IF GuardFrom = "m7" THEN {"m6"} ELSE {})

Init ==
  /\ used = ToSet(Scn.used)
  /\ pend = {<<r.s, r.q>> : r \in ToSet(Scn.pend)}
  /\ sigs = ToSet(Scn.signed)
  /\ lqs = [q \in LQs |-> LQR(q).st]
  /\ mqs = [q \in MQs |-> MQR(q).st]
  /\ settled = [q \in MQs |-> MQR(q).settled]
  /\ pay = [q \in LQs |-> LQR(q).pay]
  /\ payer = [q \in LQs |-> PendOf(q)]
  /\ mu = [proofs |-> "", quote |-> ""]
  /\ pc = [p \in Procs |-> "start"]
  /\ loc = [p \in Procs |-> Loc0]
  /\ res = [p \in Procs |-> ""]
  /\ uses = [s \in Secrets |-> IF s \in ToSet(Scn.used) THEN 1 ELSE 0]
  /\ issues = [q \in MQs |-> IF MQR(q).st = "ISSUED" THEN 1 ELSE 0]
  /\ pays = [q \in MQs |-> IF MQR(q).settled \/ MQR(q).st \in {"PAID", "ISSUED"} THEN 1 ELSE 0]
  /\ crashed = FALSE
  /\ crashAt = <<>>
  /\ faulted = FALSE
  /\ faultAt = <<>>
  /\ last = <<"", "", "">>

(* ---- helpers ---------------------------------------------------------- *)
CanLock(p, m)  == ~Mutexes \/ mu[m] = "" \/ mu[m] = p
Holding(p, m)  == IF Mutexes THEN [mu EXCEPT ![m] = p] ELSE mu
Released(p, m) == IF Mutexes /\ mu[m] = p THEN [mu EXCEPT ![m] = ""] ELSE mu   \* only the holder's unlock has an effect
Label(p, c)    == last' = <<p, c, "">>
LabelA(p, c, a) == last' = <<p, c, a>>          \* a Lightning call with the answer it got
Goto(p, l)     == pc' = [pc EXCEPT ![p] = l]
Finish(p, r)   == /\ pc' = [pc EXCEPT ![p] = IF Kind(p) = "melt" /\ pc[p] \in InProgPcs THEN "ret" ELSE "done"]
                  /\ res' = [res EXCEPT ![p] = r]
SetLoc(p, f, v) == loc' = [loc EXCEPT ![p][f] = v]
Use(ss)        == uses' = [s \in Secrets |-> IF s \in ss THEN uses[s] + 1 ELSE uses[s]]

DB   == <<used, pend, sigs, lqs, mqs>>
LN   == <<settled, pay, payer>>
GH   == <<uses, issues, pays>>
CR   == <<crashed, crashAt, faulted, faultAt>>

PayAnswers    == {"succeeded", "pending", "failed", "error"}
StatusAnswers == {"notfound", "error", "failed", "pending", "succeeded"}
\* what a status lookup may answer given the backend's truth
StatusOf(q) == IF LnFree THEN StatusAnswers
               ELSE CASE pay[q] = "none"      -> {"notfound"}
                      [] pay[q] = "inflight"  -> {"pending", "error"}
                      [] pay[q] = "succeeded" -> {"succeeded", "error"}
                      [] pay[q] = "failed"    -> {"failed", "error"}

(* ---- swap ------------------------------------------------------------- *)
Swap(p) ==
  \/ /\ pc[p] = "start" /\ Label(p, "start:swap") /\ Goto(p, "s1")
     /\ UNCHANGED <<DB, LN, GH, CR, mu, loc, res>>
  \/ /\ pc[p] = "s1" /\ CanLock(p, "proofs") /\ Label(p, "db:GetPendingProofs")
     /\ IF Ins(p) \cap PendSecrets # {}
        THEN Finish(p, "err:pending") /\ mu' = Released(p, "proofs")
        ELSE Goto(p, "s2") /\ mu' = Holding(p, "proofs") /\ UNCHANGED res
     /\ UNCHANGED <<DB, LN, GH, CR, loc>>
  \/ /\ pc[p] = "s2" /\ Label(p, "db:GetProofsUsed")
     /\ IF Ins(p) \cap used # {}
        THEN Finish(p, "err:spent") /\ mu' = Released(p, "proofs")
        ELSE Goto(p, "s3") /\ UNCHANGED <<mu, res>>
     /\ UNCHANGED <<DB, LN, GH, CR, loc>>
  \/ /\ pc[p] = "s3" /\ Label(p, "db:GetBlindSignatures")
     /\ IF Outs(p) \cap sigs # {}
        THEN Finish(p, "err:signed") /\ mu' = Released(p, "proofs")
        ELSE Goto(p, "s4") /\ UNCHANGED <<mu, res>>
     /\ UNCHANGED <<DB, LN, GH, CR, loc>>
  \/ /\ pc[p] = "s4" /\ Label(p, "db:SaveProofs")
     /\ IF Ins(p) \cap used # {}
        THEN Finish(p, "err:unique") /\ mu' = Released(p, "proofs") /\ UNCHANGED used
        ELSE Goto(p, "s5") /\ used' = used \cup Ins(p) /\ UNCHANGED <<mu, res>>
     /\ UNCHANGED <<pend, sigs, lqs, mqs, LN, GH, CR, loc>>
  \/ /\ pc[p] = "s5" /\ Label(p, "db:SaveBlindSignatures")
     /\ mu' = Released(p, "proofs")
     /\ IF Outs(p) \cap sigs # {}
        THEN Finish(p, "err:unique") /\ UNCHANGED <<sigs, uses>>
        ELSE Finish(p, "ok") /\ sigs' = sigs \cup Outs(p) /\ Use(Ins(p))
     /\ UNCHANGED <<used, pend, lqs, mqs, LN, issues, pays, CR, loc>>

(* ---- the part of GetMeltQuoteState after the quote row was read PENDING - *)
(* base: prefix of the program counters; exit(r): what the caller does next  *)
PollBody(p, q, base, ExitTo(_)) ==
  \/ /\ pc[p] = base \o "2"
     /\ \E b \in StatusOf(q) :
          /\ LabelA(p, "ln:OutgoingPaymentStatus", b)
          /\ IF b = "succeeded" THEN Goto(p, base \o "3") /\ UNCHANGED <<mu, res>>
             ELSE IF b = "failed" \/ (b = "notfound" /\ PollNotFound) THEN Goto(p, base \o "6") /\ UNCHANGED <<mu, res>>
             ELSE ExitTo("ok:PENDING")
     /\ UNCHANGED <<DB, LN, GH, CR, loc>>
  \/ /\ pc[p] = base \o "3" /\ Label(p, "db:GetPendingProofsByQuote")
     /\ SetLoc(p, "rm", PendOf(q)) /\ Goto(p, base \o "4")
     /\ UNCHANGED <<DB, LN, GH, CR, mu, res>>
  \/ /\ pc[p] = base \o "4" /\ Label(p, "db:RemovePendingProofs")
     /\ pend' = {x \in pend : x[1] \notin loc[p].rm} /\ Goto(p, base \o "5")
     /\ UNCHANGED <<used, sigs, lqs, mqs, LN, GH, CR, mu, loc, res>>
  \/ /\ pc[p] = base \o "5" /\ Label(p, "db:SaveProofs")
     /\ IF loc[p].rm \cap used # {}
        THEN Finish(p, "err:unique") /\ mu' = Released(p, "proofs") /\ UNCHANGED used
        ELSE used' = used \cup loc[p].rm /\ Goto(p, base \o "5b") /\ UNCHANGED <<mu, res>>
     /\ UNCHANGED <<pend, sigs, lqs, mqs, LN, GH, CR, loc>>
  \/ /\ pc[p] = base \o "5b" /\ Label(p, "db:UpdateMeltQuote")
     /\ lqs' = [lqs EXCEPT ![q] = "PAID"] /\ ExitTo("ok:PAID")
     /\ UNCHANGED <<used, pend, sigs, mqs, LN, GH, CR, loc>>
  \/ /\ pc[p] = base \o "6" /\ Label(p, "db:UpdateMeltQuote")
     /\ lqs' = [lqs EXCEPT ![q] = "UNPAID"] /\ Goto(p, base \o "7")
     /\ UNCHANGED <<used, pend, sigs, mqs, LN, GH, CR, mu, loc, res>>
  \/ /\ pc[p] = base \o "7" /\ Label(p, "db:GetPendingProofsByQuote")
     /\ SetLoc(p, "rm", PendOf(q)) /\ Goto(p, base \o "8")
     /\ UNCHANGED <<DB, LN, GH, CR, mu, res>>
  \/ /\ pc[p] = base \o "8" /\ Label(p, "db:RemovePendingProofs")
     /\ pend' = {x \in pend : x[1] \notin loc[p].rm} /\ ExitTo("ok:UNPAID")
     /\ UNCHANGED <<used, sigs, lqs, mqs, LN, GH, CR, loc>>

PollMelt(p) ==
  LET q == Q(p)
      Exit(r) == Finish(p, r) /\ mu' = Released(p, "proofs") IN
  \/ /\ pc[p] = "start" /\ Label(p, "start:pollmelt") /\ Goto(p, "g1")
     /\ UNCHANGED <<DB, LN, GH, CR, mu, loc, res>>
  \/ /\ pc[p] = "g1" /\ CanLock(p, "proofs") /\ Label(p, "db:GetMeltQuote")
     /\ IF lqs[q] = "PENDING" /\ ~InProgress(q)
        THEN Goto(p, "g2") /\ mu' = Holding(p, "proofs") /\ UNCHANGED res
        ELSE Finish(p, "ok:" \o lqs[q]) /\ mu' = Released(p, "proofs")
     /\ UNCHANGED <<DB, LN, GH, CR, loc>>
  \/ PollBody(p, q, "g", Exit)

\* s has been taken out of the pending table by a request that is about to store it as spent
MidSettle(s) == \E r \in Procs : \/ (pc[r] = "ms2" /\ s \in Ins(r))
                                  \/ (pc[r] \in {"g5", "c5"} /\ s \in loc[r].rm)

(* ---- state check: reads pending, polls the quote it finds, reads again - *)
CheckState(p) ==
  LET q == loc[p].q
      Exit(r) == Goto(p, "c9") /\ mu' = Released(p, "proofs") /\ UNCHANGED res IN
  \/ /\ pc[p] = "start" /\ Label(p, "start:checkstate") /\ Goto(p, "c0")
     /\ UNCHANGED <<DB, LN, GH, CR, mu, loc, res>>
  \/ /\ pc[p] = "c0" /\ Label(p, "db:GetPendingProofs")
     /\ LET qs == QuotesOf(Ins(p)) IN
        IF qs = {} THEN Goto(p, "c9") /\ UNCHANGED loc
        ELSE \E qq \in qs : SetLoc(p, "q", qq) /\ Goto(p, "c1")   \* scenarios keep the inputs under one quote
     /\ UNCHANGED <<DB, LN, GH, CR, mu, res>>
  \/ /\ pc[p] = "c1" /\ CanLock(p, "proofs") /\ Label(p, "db:GetMeltQuote")
     /\ IF lqs[q] = "PENDING" /\ ~InProgress(q)
        THEN Goto(p, "c2") /\ mu' = Holding(p, "proofs")
        ELSE Goto(p, "c9") /\ mu' = Released(p, "proofs")
     /\ UNCHANGED <<DB, LN, GH, CR, loc, res>>
  \/ /\ q # "" /\ PollBody(p, q, "c", Exit)
  \* the reply is built from two reads: the pending table, then the spent table (C15 under concurrency: a secret that is
  \* locked, spent or in the middle of being settled must never be reported UNSPENT)
  \/ /\ pc[p] = "c9" /\ (CheckLocked => CanLock(p, "proofs")) /\ Label(p, "db:GetPendingProofs")
     /\ Goto(p, "c10") /\ mu' = (IF CheckLocked THEN Holding(p, "proofs") ELSE mu)
     /\ SetLoc(p, "rm", Ins(p) \cap PendSecrets)
     /\ UNCHANGED <<DB, LN, GH, CR, res>>
  \/ /\ pc[p] = "c10" /\ Label(p, "db:GetProofsUsed")
     /\ LET saidUnspent == {s \in Ins(p) : s \notin used /\ s \notin loc[p].rm}
            lie == \E s \in saidUnspent : s \in PendSecrets \/ MidSettle(s)
        IN Finish(p, IF lie THEN "ok:LIE" ELSE "ok")
     /\ mu' = Released(p, "proofs")
     /\ UNCHANGED <<DB, LN, GH, CR, loc>>

(* ---- melt ------------------------------------------------------------- *)
PaySucceeds(q, who) == /\ pay' = [pay EXCEPT ![q] = "succeeded"]
                       /\ Use(who)

Melt(p) ==
  LET q == Q(p) ins == Ins(p) IN
  \/ /\ pc[p] = "start" /\ Label(p, "start:melt") /\ Goto(p, "m1")
     /\ UNCHANGED <<DB, LN, GH, CR, mu, loc, res>>
  \/ /\ pc[p] = "m1" /\ CanLock(p, "proofs") /\ Label(p, "db:GetMeltQuote")
     /\ IF lqs[q] = "PAID" THEN Finish(p, "err:lqpaid") /\ mu' = Released(p, "proofs")
        ELSE IF lqs[q] = "PENDING" THEN Finish(p, "err:pending") /\ mu' = Released(p, "proofs")
        ELSE Goto(p, "m2") /\ mu' = Holding(p, "proofs") /\ UNCHANGED res
     /\ UNCHANGED <<DB, LN, GH, CR, loc>>
  \/ /\ pc[p] = "m2" /\ Label(p, "db:GetPendingProofs")
     /\ IF ins \cap PendSecrets # {}
        THEN Finish(p, "err:pending") /\ mu' = Released(p, "proofs")
        ELSE Goto(p, "m3") /\ UNCHANGED <<mu, res>>
     /\ UNCHANGED <<DB, LN, GH, CR, loc>>
  \/ /\ pc[p] = "m3" /\ Label(p, "db:GetProofsUsed")
     /\ IF ins \cap used # {}
        THEN Finish(p, "err:spent") /\ mu' = Released(p, "proofs")
        ELSE Goto(p, "m4") /\ UNCHANGED <<mu, res>>
     /\ UNCHANGED <<DB, LN, GH, CR, loc>>
  \/ /\ pc[p] = "m4" /\ Label(p, "db:AddPendingProofs")
     /\ IF ins \cap PendSecrets # {}
        THEN Finish(p, "err:unique") /\ mu' = Released(p, "proofs") /\ UNCHANGED pend
        ELSE pend' = pend \cup {<<s, q>> : s \in ins} /\ Goto(p, "m5") /\ UNCHANGED <<mu, res>>
     /\ UNCHANGED <<used, sigs, lqs, mqs, LN, GH, CR, loc>>
  \/ /\ pc[p] = "m5" /\ Label(p, "db:UpdateMeltQuote")
     /\ lqs' = [lqs EXCEPT ![q] = "PENDING"] /\ mu' = Released(p, "proofs") /\ Goto(p, "m6")
     /\ UNCHANGED <<used, pend, sigs, mqs, LN, GH, CR, loc, res>>
  \/ /\ pc[p] = "m6" /\ Label(p, "db:GetMintQuoteByPaymentHash")
     /\ Goto(p, IF Internal(q) # "" THEN "i1" ELSE "m7")
     /\ UNCHANGED <<DB, LN, GH, CR, mu, loc, res>>
  \* the payment attempt.  The backend refuses a second attempt for a hash that is in flight or paid.
  \/ /\ pc[p] = "m7"
     /\ IF LnFree
        THEN /\ \E a \in PayAnswers :
                  /\ LabelA(p, "ln:SendPayment", a)
                  /\ IF a = "succeeded" THEN Goto(p, "ms1") /\ UNCHANGED res
                     ELSE IF a = "pending" THEN Finish(p, "ok:PENDING")
                     ELSE Goto(p, "m8") /\ UNCHANGED res
                  /\ IF a = "succeeded" /\ pay[q] # "succeeded"
                     THEN payer' = [payer EXCEPT ![q] = ins] /\ PaySucceeds(q, ins)
                     ELSE UNCHANGED <<pay, payer, uses>>
        ELSE IF pay[q] \in {"inflight", "succeeded"}
        THEN Goto(p, "m8") /\ LabelA(p, "ln:SendPayment", "failed") /\ UNCHANGED <<pay, payer, uses, res>>
        ELSE /\ payer' = [payer EXCEPT ![q] = ins]
             /\ \/ PaySucceeds(q, ins) /\ Goto(p, "ms1") /\ LabelA(p, "ln:SendPayment", "succeeded") /\ UNCHANGED res
                \/ pay' = [pay EXCEPT ![q] = "inflight"] /\ Finish(p, "ok:PENDING") /\ LabelA(p, "ln:SendPayment", "pending") /\ UNCHANGED uses
                \/ pay' = [pay EXCEPT ![q] = "failed"] /\ Goto(p, "m8") /\ LabelA(p, "ln:SendPayment", "failed") /\ UNCHANGED <<uses, res>>
                \* transport error: the payment may or may not be on its way
                \/ pay' = [pay EXCEPT ![q] = "inflight"] /\ Goto(p, "m8") /\ LabelA(p, "ln:SendPayment", "error") /\ UNCHANGED <<uses, res>>
                \/ PaySucceeds(q, ins) /\ Goto(p, "m8") /\ LabelA(p, "ln:SendPayment", "error") /\ UNCHANGED res
                \/ /\ UNCHANGED <<pay, uses, res>> /\ Goto(p, "m8") /\ LabelA(p, "ln:SendPayment", "error")
     /\ UNCHANGED <<DB, settled, issues, pays, CR, mu, loc>>
  \/ /\ pc[p] = "m8"
     /\ \E b \in StatusOf(q) :
          /\ LabelA(p, "ln:OutgoingPaymentStatus", b)
          /\ IF b \in {"notfound", "failed"} THEN Goto(p, "r1") /\ UNCHANGED res
             ELSE IF b = "succeeded" THEN Goto(p, "ms1") /\ UNCHANGED res
             ELSE Finish(p, "ok:PENDING")
     /\ UNCHANGED <<DB, LN, GH, CR, mu, loc>>
  \* settleProofs + quote PAID
  \/ /\ pc[p] = "ms1" /\ CanLock(p, "proofs") /\ Label(p, "db:RemovePendingProofs")
     /\ pend' = {x \in pend : x[1] \notin ins} /\ mu' = Holding(p, "proofs") /\ Goto(p, "ms2")
     /\ UNCHANGED <<used, sigs, lqs, mqs, LN, GH, CR, loc, res>>
  \/ /\ pc[p] = "ms2" /\ Label(p, "db:SaveProofs")
     /\ IF ins \cap used # {}
        THEN Finish(p, "err:unique") /\ UNCHANGED used /\ mu' = Released(p, "proofs")
        ELSE /\ used' = used \cup ins
             /\ IF Internal(q) # "" THEN Finish(p, "ok:PAID") /\ mu' = Released(p, "proofs")
                ELSE /\ Goto(p, "ms3") /\ UNCHANGED res
                     /\ mu' = Released(p, "proofs")
     /\ UNCHANGED <<pend, sigs, lqs, mqs, LN, GH, CR, loc>>
  \/ /\ pc[p] = "ms3" /\ Label(p, "db:UpdateMeltQuote")
     /\ lqs' = [lqs EXCEPT ![q] = "PAID"] /\ Finish(p, "ok:PAID") /\ mu' = Released(p, "proofs")
     /\ UNCHANGED <<used, pend, sigs, mqs, LN, GH, CR, loc>>
  \* releaseFailedMelt
  \/ /\ pc[p] = "r1" /\ CanLock(p, "proofs") /\ Label(p, "db:GetPendingProofsByQuote")
     /\ IF ReleaseByQuote /\ PendOf(q) # ins
        THEN Finish(p, "ok:UNPAID") /\ mu' = Released(p, "proofs")
        ELSE Goto(p, "r2") /\ mu' = Holding(p, "proofs") /\ UNCHANGED res
     /\ UNCHANGED <<DB, LN, GH, CR, loc>>
  \/ /\ pc[p] = "r2" /\ Label(p, "db:UpdateMeltQuote")
     /\ lqs' = [lqs EXCEPT ![q] = "UNPAID"] /\ Goto(p, "r3")
     /\ UNCHANGED <<used, pend, sigs, mqs, LN, GH, CR, mu, loc, res>>
  \/ /\ pc[p] = "r3" /\ Label(p, "db:RemovePendingProofs")
     /\ pend' = {x \in pend : x[1] \notin ins} /\ mu' = Released(p, "proofs") /\ Finish(p, "ok:UNPAID")
     /\ UNCHANGED <<used, sigs, lqs, mqs, LN, GH, CR, loc>>
  \* the deferred removal from meltsInProgress, under proofsMu
  \/ /\ pc[p] = "ret" /\ CanLock(p, "proofs") /\ Label(p, "return") /\ Goto(p, "done")
     /\ UNCHANGED <<DB, LN, GH, CR, mu, loc, res>>
  \* settleQuotesInternally
  \/ /\ pc[p] = "i1" /\ Label(p, "ln:InvoiceStatus") /\ Goto(p, "i2")
     /\ UNCHANGED <<DB, LN, GH, CR, mu, loc, res>>
  \/ /\ pc[p] = "i2" /\ Label(p, "db:UpdateMeltQuote")
     /\ lqs' = [lqs EXCEPT ![q] = "PAID"] /\ Goto(p, "i3")
     /\ UNCHANGED <<used, pend, sigs, mqs, LN, GH, CR, mu, loc, res>>
  \/ /\ pc[p] = "i3" /\ CanLock(p, "quote") /\ Label(p, "db:UpdateMintQuoteState")
     /\ mqs' = [mqs EXCEPT ![Internal(q)] = "PAID"]
     /\ pays' = [pays EXCEPT ![Internal(q)] = @ + 1] /\ Use(ins) /\ Goto(p, "ms1")
     /\ UNCHANGED <<used, pend, sigs, lqs, LN, issues, CR, mu, loc, res>>

(* ---- mint, mint-quote poll, invoice watcher ---------------------------- *)
Mint(p) ==
  LET q == Q(p) IN
  \/ /\ pc[p] = "start" /\ Label(p, "start:mint") /\ Goto(p, "t1")
     /\ UNCHANGED <<DB, LN, GH, CR, mu, loc, res>>
  \/ /\ pc[p] = "t1" /\ CanLock(p, "quote") /\ Label(p, "db:GetMintQuote")
     /\ IF mqs[q] = "UNPAID" THEN Goto(p, "t2") /\ mu' = Holding(p, "quote") /\ UNCHANGED res
        ELSE IF mqs[q] = "PAID" THEN Goto(p, "t4") /\ mu' = Holding(p, "quote") /\ UNCHANGED res
        ELSE Finish(p, IF mqs[q] = "ISSUED" THEN "err:issued" ELSE "err:pending") /\ mu' = Released(p, "quote")
     /\ UNCHANGED <<DB, LN, GH, CR, loc>>
  \/ /\ pc[p] = "t2" /\ Label(p, "ln:InvoiceStatus")
     /\ IF settled[q] THEN Goto(p, "t3") /\ UNCHANGED <<mu, res>>
        ELSE Finish(p, "err:unpaid") /\ mu' = Released(p, "quote")
     /\ UNCHANGED <<DB, LN, GH, CR, loc>>
  \/ /\ pc[p] = "t3" /\ Label(p, "db:UpdateMintQuoteState")
     /\ mqs' = [mqs EXCEPT ![q] = "PAID"] /\ Goto(p, "t4")
     /\ UNCHANGED <<used, pend, sigs, lqs, LN, GH, CR, mu, loc, res>>
  \/ /\ pc[p] = "t4" /\ Label(p, "db:UpdateMintQuoteState")
     /\ mqs' = [mqs EXCEPT ![q] = "PENDING"] /\ Goto(p, "t5")
     /\ UNCHANGED <<used, pend, sigs, lqs, LN, GH, CR, mu, loc, res>>
  \/ /\ pc[p] = "t5" /\ Label(p, "db:GetBlindSignatures")
     /\ Goto(p, IF Outs(p) \cap sigs # {} THEN "t8" ELSE "t6")
     /\ UNCHANGED <<DB, LN, GH, CR, mu, loc, res>>
  \/ /\ pc[p] = "t6" /\ Label(p, "db:UpdateMintQuoteState")
     /\ mqs' = [mqs EXCEPT ![q] = "ISSUED"] /\ Goto(p, "t7")
     /\ UNCHANGED <<used, pend, sigs, lqs, LN, GH, CR, mu, loc, res>>
  \/ /\ pc[p] = "t7" /\ Label(p, "db:SaveBlindSignatures")
     /\ IF Outs(p) \cap sigs # {}
        THEN Goto(p, "t8") /\ UNCHANGED <<sigs, issues, mu, res>>
        ELSE /\ sigs' = sigs \cup Outs(p) /\ issues' = [issues EXCEPT ![q] = @ + 1]
             /\ Finish(p, "ok") /\ mu' = Released(p, "quote")
     /\ UNCHANGED <<used, pend, lqs, mqs, LN, uses, pays, CR, loc>>
  \/ /\ pc[p] = "t8" /\ Label(p, "db:UpdateMintQuoteState")
     /\ mqs' = [mqs EXCEPT ![q] = "PAID"] /\ Finish(p, "err:signed") /\ mu' = Released(p, "quote")
     /\ UNCHANGED <<used, pend, sigs, lqs, LN, GH, CR, loc>>

PollMint(p) ==
  LET q == Q(p) IN
  \/ /\ pc[p] = "start" /\ Label(p, "start:pollmint") /\ Goto(p, "u1")
     /\ UNCHANGED <<DB, LN, GH, CR, mu, loc, res>>
  \/ /\ pc[p] = "u1" /\ CanLock(p, "quote") /\ Label(p, "db:GetMintQuote")
     /\ IF mqs[q] = "UNPAID" THEN Goto(p, "u2") /\ mu' = Holding(p, "quote") /\ UNCHANGED res
        ELSE Finish(p, "ok:" \o mqs[q]) /\ mu' = Released(p, "quote")
     /\ UNCHANGED <<DB, LN, GH, CR, loc>>
  \/ /\ pc[p] = "u2" /\ Label(p, "ln:InvoiceStatus")
     /\ IF settled[q] THEN Goto(p, "u3") /\ UNCHANGED <<mu, res>>
        ELSE Finish(p, "ok:UNPAID") /\ mu' = Released(p, "quote")
     /\ UNCHANGED <<DB, LN, GH, CR, loc>>
  \/ /\ pc[p] = "u3" /\ Label(p, "db:UpdateMintQuoteState")
     /\ mqs' = [mqs EXCEPT ![q] = "PAID"] /\ Finish(p, "ok:PAID") /\ mu' = Released(p, "quote")
     /\ UNCHANGED <<used, pend, sigs, lqs, LN, GH, CR, loc>>

Notify(p) ==   \* the invoice watcher of quote q receives "settled"
  LET q == Q(p) IN
  \/ /\ pc[p] = "start" /\ settled[q] /\ Label(p, "env:notify") /\ Goto(p, "n1")
     /\ UNCHANGED <<DB, LN, GH, CR, mu, loc, res>>
  \/ /\ pc[p] = "n1" /\ CanLock(p, "quote") /\ Label(p, "db:GetMintQuote")
     /\ IF mqs[q] = "UNPAID" THEN Goto(p, "n2") /\ mu' = Holding(p, "quote") /\ UNCHANGED res
        ELSE Finish(p, "ok") /\ mu' = Released(p, "quote")
     /\ UNCHANGED <<DB, LN, GH, CR, loc>>
  \/ /\ pc[p] = "n2" /\ Label(p, "db:UpdateMintQuoteState")
     /\ mqs' = [mqs EXCEPT ![q] = "PAID"] /\ Finish(p, "ok") /\ mu' = Released(p, "quote")
     /\ UNCHANGED <<used, pend, sigs, lqs, LN, GH, CR, loc>>

(* ---- environment ------------------------------------------------------- *)
Over(p)     == pc[p] \in {"done", "dead"}
ConcProcs   == {p \in Procs : ~IsPost(p)}
PostProcs   == Procs \ ConcProcs
ConcOver    == \A p \in ConcProcs : Over(p)

Resolve(q) ==   \* an in-flight payment reaches its final outcome
  /\ ~LnFree /\ pay[q] = "inflight" /\ last' = <<"env", "resolve", "">>
  /\ \/ PaySucceeds(q, payer[q])
     \/ pay' = [pay EXCEPT ![q] = "failed"] /\ UNCHANGED uses
  /\ UNCHANGED <<DB, settled, payer, issues, pays, CR, mu, pc, loc, res>>

Crash ==        \* the process dies: every running request stops where it is, locks are gone
  /\ Crashes /\ ~crashed /\ ~ConcOver
  /\ crashed' = TRUE
  /\ crashAt' = [p \in ConcProcs |-> pc[p]]
  /\ pc' = [p \in Procs |-> IF ~IsPost(p) /\ pc[p] # "done" THEN "dead" ELSE pc[p]]
  /\ mu' = [proofs |-> "", quote |-> ""]
  /\ last' = <<"env", "crash", "">>
  /\ UNCHANGED <<DB, LN, GH, loc, res, faulted, faultAt>>

\* the storage call a request is about to make fails.  Every caller returns the error (deferred unlocks run, nothing is
\* compensated) except MintTokens, which writes the quote back to the state it had (t8).
StoragePcs == {"s1", "s2", "s3", "s4", "s5", "m1", "m2", "m3", "m4", "m5", "ms1", "ms2", "ms3", "r1", "r2", "r3", "i2", "i3",
               "g1", "g3", "g4", "g5", "g5b", "g6", "g7", "g8", "c0", "c1", "c3", "c4", "c5", "c5b", "c6", "c7", "c8", "c9", "c10",
               "t1", "t3", "t4", "t5", "t6", "t7", "t8", "u1", "u3", "n1", "n2"}
NeedsLock(l) == CASE l \in {"s1", "m1", "g1", "c1", "c9", "ms1", "r1"} -> "proofs"
                  [] l \in {"t1", "u1", "n1", "i3"} -> "quote"
                  [] OTHER -> ""
Fault(p) ==
  /\ Faults /\ ~faulted /\ ~crashed /\ pc[p] \in StoragePcs
  /\ NeedsLock(pc[p]) # "" => CanLock(p, NeedsLock(pc[p]))
  /\ faulted' = TRUE /\ faultAt' = <<Kind(p), pc[p]>>
  /\ last' = <<p, "fault", pc[p]>>
  /\ IF Kind(p) = "mint" /\ pc[p] \in {"t4", "t5", "t6", "t7"}
     THEN Goto(p, "t8") /\ UNCHANGED <<mu, res>>
     ELSE /\ Finish(p, "err:db")
          /\ mu' = [m \in DOMAIN mu |-> IF mu[m] = p THEN "" ELSE mu[m]]
  /\ UNCHANGED <<DB, LN, GH, crashed, crashAt, loc>>

StepOf(p) ==
  CASE Kind(p) = "swap"       -> Swap(p)
    [] Kind(p) = "melt"       -> Melt(p)
    [] Kind(p) = "pollmelt"   -> PollMelt(p)
    [] Kind(p) = "checkstate" -> CheckState(p)
    [] Kind(p) = "mint"       -> Mint(p)
    [] Kind(p) = "pollmint"   -> PollMint(p)
    [] Kind(p) = "notify"     -> Notify(p)

Next ==
  \/ \E p \in ConcProcs : StepOf(p)
  \/ \E p \in PostProcs : ConcOver /\ StepOf(p)     \* follow-up requests (after a crash: on the restarted mint)
  \/ \E q \in LQs : Resolve(q)
  \/ Crash
  \/ \E p \in ConcProcs : Fault(p)

Spec == Init /\ [][Next]_vars

(* ---- properties --------------------------------------------------------- *)
Quiet == (\A p \in Procs : Over(p)) /\ (\A q \in LQs : pay[q] # "inflight")

\* a poll would still settle these
EffUsed == used \cup {s \in PendSecrets : \E q \in LQs : <<s, q>> \in pend /\ lqs[q] = "PENDING" /\ pay[q] = "succeeded"}

NoDoubleUse == \A s \in Secrets : uses[s] <= 1                       \* C01 / C02: a secret pays for one thing
IssueOnce   == \A q \in MQs : issues[q] <= pays[q]                   \* C03
Inflation   == \E s \in Secrets : uses[s] >= 1 /\ s \notin EffUsed   \* paid for something and still spendable
Stranded    == \E s \in used : uses[s] = 0                           \* spent and nothing was paid / signed for it
LockedForGood == \E x \in pend : lqs[x[2]] # "PENDING"               \* locked under a quote nobody will resolve
QuoteLies   == \E q \in LQs : \/ lqs[q] = "UNPAID" /\ pay[q] = "succeeded"
                              \/ lqs[q] = "PAID" /\ pay[q] # "succeeded" /\ Internal(q) = ""
MintQuoteStuck == \E q \in MQs : mqs[q] = "PENDING"                  \* nobody moves a PENDING mint quote on
IssuedNoSigs == \E q \in MQs : mqs[q] = "ISSUED" /\ issues[q] = 0     \* marked ISSUED, the signatures never stored

Inv_NoDoubleUse == ~faulted => NoDoubleUse     \* after a failed storage call the windows reported below lead to it
Inv_IssueOnce   == IssueOnce
Inv_CheckTruth  == \A p \in Procs : res[p] # "ok:LIE"
Inv_Quiet       == (Quiet /\ ~crashed /\ ~faulted) => ~Inflation /\ ~Stranded /\ ~LockedForGood /\ ~QuoteLies /\ ~MintQuoteStuck /\ ~IssuedNoSigs

\* crash windows: reported, not failed on (the mint has no transaction spanning several storage calls; the windows
\* found on the real mint are known findings of C07).  One line per (window, kind of damage).
BadKinds == {k \in {"inflation", "stranded", "locked", "quotelies", "mqstuck", "issuednosigs", "doubleuse"} :
               CASE k = "inflation" -> Inflation [] k = "stranded" -> Stranded [] k = "locked" -> LockedForGood
                 [] k = "quotelies" -> QuoteLies [] k = "mqstuck" -> MintQuoteStuck
                 [] k = "issuednosigs" -> IssuedNoSigs
                 [] k = "doubleuse" -> ~NoDoubleUse}
Inv_CrashReport == (Quiet /\ crashed /\ BadKinds # {}) => PrintT(<<"WINDOW", ToJson(crashAt), ToJson(BadKinds)>>)

Inv_FaultReport == (Quiet /\ faulted /\ BadKinds # {}) => PrintT(<<"FAULTWINDOW", ToJson(faultAt), ToJson(BadKinds)>>)

\* with a crash: what must hold even then (safety half of C07 that the code does keep)
Inv_CrashNoDoubleIssue == IssueOnce
=============================================================================
