------------------------------- MODULE ECPrim -------------------------------
(***************************************************************************)
(* Primitive operators whose values TLC cannot compute with its own        *)
(* integers: SHA-256, HMAC-SHA512, arithmetic modulo the group order n of  *)
(* secp256k1 and point arithmetic on the curve.  All data are lower-case   *)
(* hex strings (points: 33-byte compressed).  The definitions below are    *)
(* placeholders: TLC replaces them by the Java class ECPrim (module         *)
(* override, JDK primitives only).  The self-tests at the end pin the      *)
(* override against published constants.                                   *)
(***************************************************************************)
EXTENDS Integers, Sequences, TLC

SHA256(h) == CHOOSE x \in STRING : TRUE          \* hex -> hex (32 bytes)
HMACSHA512(key, data) == CHOOSE x \in STRING : TRUE
Utf8Hex(t) == CHOOSE x \in STRING : TRUE         \* text -> hex of its UTF-8 bytes
IsHex(t) == CHOOSE x \in BOOLEAN : TRUE
HexLen(t) == CHOOSE x \in Nat : TRUE             \* number of bytes
HexSub(t, from, len) == CHOOSE x \in STRING : TRUE  \* bytes from (0-based), len bytes
U32LE(i) == CHOOSE x \in STRING : TRUE           \* 4 bytes little endian, i < 2^31
Ser32(i, hardened) == CHOOSE x \in STRING : TRUE \* 4 bytes big endian of i (+ 2^31 if hardened)
U64BEMod(h, m) == CHOOSE x \in Nat : TRUE        \* first 8 bytes as unsigned big endian, mod m
AddModN(a, b) == CHOOSE x \in STRING : TRUE
MulModN(a, b) == CHOOSE x \in STRING : TRUE
NegModN(a) == CHOOSE x \in STRING : TRUE
ModN(a) == CHOOSE x \in STRING : TRUE
IsZeroModN(a) == CHOOSE x \in BOOLEAN : TRUE
LessThanN(a) == CHOOSE x \in BOOLEAN : TRUE
NMinus(k) == CHOOSE x \in STRING : TRUE          \* n - k as 32 bytes
IsPoint(p) == CHOOSE x \in BOOLEAN : TRUE        \* valid compressed encoding of a curve point
PointAdd(a, b) == CHOOSE x \in STRING : TRUE     \* "" is the point at infinity
PointMul(k, p) == CHOOSE x \in STRING : TRUE
PointNeg(p) == CHOOSE x \in STRING : TRUE
GMul(k) == CHOOSE x \in STRING : TRUE            \* k * G
Uncompress(p) == CHOOSE x \in STRING : TRUE      \* 65-byte uncompressed encoding

G == "0279be667ef9dcbbac55a06295ce870b07029bfcdb2dce28d959f2815b16f81798"
One == "0000000000000000000000000000000000000000000000000000000000000001"

\* ---- self-tests of the override (FIPS 180-4, RFC 4231 #2, SEC2) ----
ASSUME SHA256("616263") = "ba7816bf8f01cfea414140de5dae2223b00361a396177a9cb410ff61f20015ad"
ASSUME SHA256("") = "e3b0c44298fc1c149afbf4c8996fb92427ae41e4649b934ca495991b7852b855"
ASSUME HMACSHA512("4a656665", "7768617420646f2079612077616e7420666f72206e6f7468696e673f") =
       "164b7a7bfcf819e2e395fbe73b56e0a387bd64222e831fd610270cd7ea2505549758bf75c05a994a6d034f65f8f0e6fdcaeab1a34d4a6b4b636e070a38bce737"
ASSUME GMul(One) = G
ASSUME GMul("0000000000000000000000000000000000000000000000000000000000000002") =
       "02c6047f9441ed7d6d3045406e95c07cd85c778e4b8cef3ca7abac09b95c709ee5"
ASSUME PointAdd(G, G) = GMul("0000000000000000000000000000000000000000000000000000000000000002")
ASSUME PointAdd(G, PointNeg(G)) = ""
ASSUME GMul(NMinus(1)) = PointNeg(G)
ASSUME Uncompress(G) = "0479be667ef9dcbbac55a06295ce870b07029bfcdb2dce28d959f2815b16f81798483ada7726a3c4655da4fbfc0e1108a8fd17b448a68554199c47d08ffb10d4b8"
ASSUME U32LE(258) = "02010000" /\ Ser32(1, TRUE) = "80000001" /\ Ser32(129372, TRUE) = "8001f95c"
ASSUME ~IsPoint("020000000000000000000000000000000000000000000000000000000000000005") /\ IsPoint(G)
=============================================================================
