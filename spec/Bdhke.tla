-------------------------------- MODULE Bdhke --------------------------------
(***************************************************************************)
(* Blind Diffie-Hellman key exchange and the DLEQ proofs of NUT-00/NUT-12, *)
(* written over ECPrim as the reference for C10.                           *)
(***************************************************************************)
EXTENDS Derive

\* secrets travel as the hex of the bytes of the secret string (no charset questions in the log)
Y(secretHex) == HashToCurve(secretHex)
Blind(secretHex, r) == PointAdd(Y(secretHex), GMul(r))            \* B_ = Y + rG
Sign(B_, k) == PointMul(k, B_)                                     \* C_ = kB_
Unblind(C_, r, K) == PointAdd(C_, PointNeg(PointMul(r, K)))        \* C = C_ - rK
Verify(secretHex, k, C) == PointMul(k, Y(secretHex)) = C           \* kY = C

\* e = SHA256 over the UTF-8 of the concatenated hex of the uncompressed points R1, R2, A, C_
HashE(R1, R2, A, C_) == SHA256(Utf8Hex(Uncompress(R1) \o Uncompress(R2) \o Uncompress(A) \o Uncompress(C_)))

\* NUT-12: R1 = sG - eA, R2 = sB_ - eC_, accept iff e = HashE(R1, R2, A, C_)
DleqVerify(e, s, A, B_, C_) ==
  LET R1 == PointAdd(GMul(s), PointNeg(PointMul(e, A)))
      R2 == PointAdd(PointMul(s, B_), PointNeg(PointMul(e, C_)))
  IN R1 # "" /\ R2 # "" /\ e = HashE(R1, R2, A, C_)

\* a proof carrying (e, s, r): re-blind and check against C' = C + rA
ProofDleqVerify(secretHex, C, e, s, r, A) ==
  DleqVerify(e, s, A, Blind(secretHex, r), PointAdd(C, PointMul(r, A)))

\* NUT-00 vector: secret "test_message", r = 1
ASSUME Blind(Utf8Hex("test_message"), One) = "025cc16fe33b953e2ace39653efb3e7a7049711ae1d8a2f7a9108753f1cdea742b"
=============================================================================
