---- MODULE TokenValidate ----
EXTENDS Token
ASSUME Validate(IOEnv.VERIF_TAGS)
====
