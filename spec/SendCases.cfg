INIT Init
NEXT Next
