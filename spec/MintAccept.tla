----------------------------- MODULE MintAccept -----------------------------
(***************************************************************************)
(* Acceptance-mode trace validation of concurrent executions of the real   *)
(* mint (a linearizability search by model checking).                      *)
(*                                                                         *)
(* An execution is: init, a sequential prefix, a block of concurrent       *)
(* operations (each logged with its call and return sequence numbers c,t   *)
(* and its actual reply, the atomic effects are NOT logged), a "sync" line *)
(* carrying the projection of the real state once all have returned, and   *)
(* sequential follow-up queries.  TLC searches for a placement of each     *)
(* operation's atomic MintAPI step between its call and its return such    *)
(* that every success reply is one MintAPI allows at that point and the    *)
(* final state equals the real projection.  Error replies are always       *)
(* allowed to be no-ops (a request that observed another one's             *)
(* intermediate state may be refused), so a correct implementation is      *)
(* never rejected because of the spec's coarser atomicity.  A melt that    *)
(* errs after its pay call may also count as having taken effect (Lin).    *)
(*                                                                         *)
(* Many executions are concatenated: GiveUp may skip to the next init at   *)
(* any time; reaching the end of execution k without having given up sets  *)
(* TLC register k.  The POSTCONDITION writes the set of accepted ones.     *)
(***************************************************************************)
EXTENDS MintJudge, Json, IOUtils

Trace == ndJsonDeserialize(IOEnv.VERIF_TRACE)
OutFile == IOEnv.VERIF_TAGS
N == Len(Trace)

VARIABLES l,        \* next line to consume (start of the block while inside a concurrent block)
          S,        \* abstract state
          lin,      \* lines of the current block already linearized
          gaveUp,   \* this execution was abandoned
          ex        \* number of the current execution (1-based, in file order)
vars == <<l, S, lin, gaveUp, ex>>

IsConc(i) == i <= N /\ Trace[i].proc # ""
RECURSIVE BlockEnd(_)
BlockEnd(i) == IF IsConc(i) THEN BlockEnd(i + 1) ELSE i
Block(i) == i .. (BlockEnd(i) - 1)
RECURSIVE NextInit(_)
NextInit(i) == IF i > N \/ Trace[i].ev = "init" THEN i ELSE NextInit(i + 1)
NumExec == Cardinality({i \in 1..N : Trace[i].ev = "init"})

\* verdict tags that make a step unacceptable in a concurrent setting
Hard(tags) == {t \in tags : ~\E p \in {"refused-without-cause", "poll-reply-state", "melt-reply", "poll-reply"} :
                                 Len(t[2]) >= Len(p) /\ SubSeq(t[2], 1, Len(p)) = p}

\* once all requests have returned: a payment the backend still has in flight belongs to a PENDING quote (C05 "while an
\* outgoing payment may still succeed ... the quote is PENDING"; its inputs are then compared through the projection).
\* An answer about an earlier attempt applied to a later one breaks exactly this.
InflightLocked(post) == \A q \in DOMAIN post.lq :
                          ("truth" \in DOMAIN post.lq[q] /\ post.lq[q].truth = "inflight") => post.lq[q].st = "PENDING"

Dummy == InitState(<< >>, [maxbal |-> 0, maxmint |-> 0, maxmelt |-> 0])

Init == l = 1 /\ S = Dummy /\ lin = {} /\ gaveUp = FALSE /\ ex = 0
        /\ \A k \in 1..NumExec : TLCSet(k, FALSE)

\* finishing execution `ex` (called when the next init line or the end of the file is reached)
Mark == IF ex >= 1 /\ ~gaveUp THEN TLCSet(ex, TRUE) ELSE TRUE

SeqStep ==
  /\ l <= N /\ ~IsConc(l) /\ lin = {}
  /\ LET e == Trace[l] IN
     IF e.ev = "init"
     THEN /\ Mark
          /\ S' = StateFromInit(e) /\ gaveUp' = FALSE /\ ex' = ex + 1
     ELSE /\ ~gaveUp
          /\ IF e.ev = "sync"
             THEN ProjEq(S, e.post) /\ InflightLocked(e.post) /\ S' = Adopt(S, e.post)
             ELSE LET j == Judge(S, e) IN
                  /\ j.tags = {}
                  /\ S' \in j.allowed
          /\ UNCHANGED <<gaveUp, ex>>
  /\ l' = l + 1 /\ lin' = lin

\* the atomic step of one concurrent operation, placed between its call and its return
Lin ==
  /\ IsConc(l) /\ ~gaveUp
  /\ \E i \in Block(l) \ lin :
       /\ \A j \in Block(l) : Trace[j].t < Trace[i].c => j \in lin
       /\ LET e == Trace[i]
              j == Judge(S, e)
              \* a melt that is answered with an error after it has asked the backend to pay may have taken effect all the
              \* same: a concurrent poll of its quote settles it first and the melt's own settlement then fails on the
              \* storage key.  What MintAPI allows for an accepted melt is allowed for it too.
              late == IF e.ev = "melt" /\ ~e.r.ok /\ ~e.r.panic /\ e.a.q \in DOMAIN S.lq /\ MeltCauses(S, e.a) = {}
                         /\ \E k \in DOMAIN e.a.ln : e.a.ln[k].name \in {"SendPayment", "PayPartialAmount"}
                      THEN MeltOutcomes(S, e.a) ELSE {}
              \* ... and if the backend reported to that melt that the payment succeeded, money has left the mint: the melt cannot
              \* be explained as a request that did nothing (its inputs must have been its to spend at some point)
              paid == e.ev = "melt" /\ ~e.r.ok /\ ~e.r.panic /\ MeltHow(e.a.ln) = "success"
          IN /\ Hard(j.tags) = {}
             /\ S' \in (IF paid THEN late ELSE j.allowed \cup late)
       /\ lin' = lin \cup {i}
  /\ UNCHANGED <<l, gaveUp, ex>>

EndBlock ==
  /\ IsConc(l) /\ ~gaveUp /\ lin = Block(l)
  /\ l' = BlockEnd(l) /\ lin' = {}
  /\ UNCHANGED <<S, gaveUp, ex>>

GiveUp ==
  /\ l <= N /\ ~gaveUp /\ ex >= 1
  /\ gaveUp' = TRUE /\ l' = NextInit(l) /\ lin' = {} /\ S' = Dummy
  /\ UNCHANGED ex

Finish ==
  /\ l = N + 1
  /\ Mark
  /\ l' = N + 2
  /\ UNCHANGED <<S, lin, gaveUp, ex>>

Next == SeqStep \/ Lin \/ EndBlock \/ GiveUp \/ Finish
Spec == Init /\ [][Next]_vars

Accepted == {k \in 1..NumExec : TLCGet(k)}
WriteResult ==
  ndJsonSerialize(OutFile, <<[executions |-> NumExec, accepted |-> SetToSeq(Accepted), lines |-> N]>>)
=============================================================================
