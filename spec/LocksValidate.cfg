INIT Init
NEXT Next
