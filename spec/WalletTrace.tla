---------------------------- MODULE WalletTrace ----------------------------
(***************************************************************************)
(* Monitor-mode validation of wallet-world traces against Wallet.tla:      *)
(* after every operation the invariants on the new projection, the         *)
(* per-operation conditions between the previous and the new projection,   *)
(* and the per-request conditions (privacy, counter discipline) are        *)
(* evaluated; mismatches become tags <<property, trace, line, reason>>.    *)
(***************************************************************************)
EXTENDS Wallet, Json, IOUtils

Trace == ndJsonDeserialize(IOEnv.VERIF_TRACE)
OutFile == IOEnv.VERIF_TAGS

VARIABLES l, P, signed, bad, stats, crashed, dbl
vars == <<l, P, signed, bad, stats, crashed, dbl>>

RECURSIVE FoldReqs(_, _, _)
\* walks the requests of an event in order: returns [signed, tags]
FoldReqs(reqs, sg, tags) ==
  IF reqs = << >> THEN [signed |-> sg, tags |-> tags]
  ELSE LET r == Head(reqs)
       IN FoldReqs(Tail(reqs), AddSigned(sg, r), tags \cup ReqTags(r) \cup ReuseTags(sg, r))

Empty == [wallets |-> << >>, tokens |-> << >>, mints |-> << >>]

Init == l = 1 /\ P = Empty /\ signed = << >> /\ crashed = FALSE /\ dbl = {} /\ bad = {} /\ stats = [events |-> 0, ok |-> 0, failed |-> 0, requests |-> 0]

StepAct ==
  /\ l <= Len(Trace)
  /\ LET e == Trace[l]
         fresh == e.ev = "init"
         sg0 == IF fresh THEN << >> ELSE signed
         fr == FoldReqs(e.reqs, sg0, {})
         \* proofs double-held (wallet store and outstanding token) as of a restore: see Wallet!DoubleHeld
         dbl2 == IF fresh THEN {} ELSE IF e.ev = "restore" THEN dbl \cup DoubleHeld(e.post) ELSE dbl
         all == (IF fresh THEN {} ELSE Step(P, e, e.post)) \cup InvX(e.post, dbl2) \cup fr.tags \cup CounterTags(fr.signed, e.post)
         \* a wallet process killed mid-operation (event "crash"): C17 and C18 speak of fault-free operation only, and the dead
         \* wallet's stored counter may lag; what remains is C19's restore clause, the counter discipline of whatever runs
         \* after the restore, and what the mint saw (C08, C06)
         dead == ~fresh /\ (crashed \/ e.ev = "crash")
         tags == IF dead THEN {t \in all : t[1] \in {"C08", "C06"} \/ (t[1] = "C19" /\ e.ev # "crash")} ELSE all
     IN /\ P' = e.post
        /\ crashed' = dead
        /\ dbl' = dbl2
        /\ signed' = fr.signed
        /\ bad' = bad \cup {<<t[1], e.tr, e.i, t[2]>> : t \in tags}
        /\ stats' = [events |-> stats.events + 1, ok |-> stats.ok + (IF e.r.ok THEN 1 ELSE 0),
                     failed |-> stats.failed + (IF e.r.ok THEN 0 ELSE 1), requests |-> stats.requests + Len(e.reqs)]
  /\ l' = l + 1

Finish ==
  /\ l = Len(Trace) + 1
  /\ l' = l + 1
  /\ ndJsonSerialize(OutFile, <<[tags |-> SetToSeq(bad), stats |-> stats, lines |-> Len(Trace)]>>)
  /\ UNCHANGED <<P, signed, bad, stats, crashed, dbl>>

Next == StepAct \/ Finish
Spec == Init /\ [][Next]_vars
=============================================================================
