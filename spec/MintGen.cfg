SPECIFICATION Spec
CONSTANTS
  MaxOut = 30
  MaxMq = 4
  MaxLq = 3
  MaxOps = 16
  Amts = {1, 2, 3, 5, 8, 13}
  Fees = {0, 100, 1000}
  Sim = TRUE
  Profile = {"mintquote","settle","notify","pollmint","mint","swap","meltquote","melt","pollmelt","checkstate","rotate","restart"}
CHECK_DEADLOCK FALSE
