---------------------------- MODULE KeysetSteps ----------------------------
(***************************************************************************)
(* Layer 2 for the keyset lifecycle (C09, rotation clause of C07):         *)
(* RotateKeyset and the start-up recovery of LoadMint, one action per      *)
(* storage call, with a process crash between any two calls and one        *)
(* failing storage call.                                                   *)
(*                                                                         *)
(*   RotateKeyset: GetSeed; UpdateKeysetActive(current, false);            *)
(*                 SaveKeyset(new, active)  -- if that fails:              *)
(*                 UpdateKeysetActive(current, true); then the in-memory   *)
(*                 switch.                                                 *)
(*   LoadMint:     GetKeysets; if no row is active, UpdateKeysetActive of  *)
(*                 the row with the highest derivation index; optionally a *)
(*                 rotation (RotateKeyset = true in the configuration).    *)
(*                                                                         *)
(* Variant (constant): how the recovery chooses: "latest" (the code),      *)
(* "oldest" (a seeded change), "none" (the code before commit 6a5ae38).    *)
(* The last two must be rejected.                                          *)
(***************************************************************************)
EXTENDS Naturals, FiniteSets, TLC

CONSTANTS MaxRot,      \* rotations attempted in one behaviour
          MaxCrash,    \* crashes in one behaviour
          Recovery     \* "latest" | "oldest" | "none"

VARIABLES rows,        \* stored keysets: set of [idx, active]
          mem,         \* the running process: index of the keyset it signs with, or -1 (down)
          pc,          \* "idle" | "r1" | "r2" | "r3" | "r4" (rollback) | "down" | "l1" | "l2"
          cur,         \* rotation in progress: the keyset being replaced
          n,           \* rotations started
          crashes, faulted,
          stable       \* ghost: index of the keyset that was active at the last point where nothing was in progress
vars == <<rows, mem, pc, cur, n, crashes, faulted, stable>>

Idx == 0..(MaxRot + 1)
Active == {r \in rows : r.active}
MaxIdx == CHOOSE i \in {r.idx : r \in rows} : \A r \in rows : r.idx <= i
MinIdx == CHOOSE i \in {r.idx : r \in rows} : \A r \in rows : r.idx >= i
SetActive(i, b) == {IF r.idx = i THEN [idx |-> i, active |-> b] ELSE r : r \in rows}

Init == /\ rows = {[idx |-> 0, active |-> TRUE]} /\ mem = 0 /\ pc = "idle" /\ cur = 0 /\ n = 0
        /\ crashes = 0 /\ faulted = FALSE /\ stable = 0

\* ---- RotateKeyset ----
Start  == pc = "idle" /\ n < MaxRot /\ pc' = "r1" /\ cur' = mem /\ n' = n + 1 /\ UNCHANGED <<rows, mem, crashes, faulted, stable>>
GetSeed == pc = "r1" /\ pc' = "r2" /\ UNCHANGED <<rows, mem, cur, n, crashes, faulted, stable>>
Deactivate == pc = "r2" /\ rows' = SetActive(cur, FALSE) /\ pc' = "r3" /\ UNCHANGED <<mem, cur, n, crashes, faulted, stable>>
SaveNew == /\ pc = "r3"
           /\ IF \E r \in rows : r.idx = cur + 1          \* the keyset id is the primary key
              THEN pc' = "r4" /\ UNCHANGED <<rows, mem, stable>>
              ELSE /\ rows' = rows \cup {[idx |-> cur + 1, active |-> TRUE]}
                   /\ mem' = cur + 1 /\ stable' = cur + 1 /\ pc' = "idle"
           /\ UNCHANGED <<cur, n, crashes, faulted>>
Rollback == pc = "r4" /\ rows' = SetActive(cur, TRUE) /\ pc' = "idle" /\ UNCHANGED <<mem, cur, n, crashes, faulted, stable>>

\* one storage call fails: GetSeed / the deactivation: the rotation returns the error; SaveKeyset: roll back; the roll-back
\* itself: logged, the error of SaveKeyset is returned
Fault == /\ ~faulted /\ pc \in {"r1", "r2", "r3", "r4"} /\ faulted' = TRUE
         /\ pc' = (IF pc = "r3" THEN "r4" ELSE "idle")
         /\ UNCHANGED <<rows, mem, cur, n, crashes, stable>>

\* ---- crash and restart (LoadMint) ----
Crash == pc \notin {"down", "l1", "l2"} /\ crashes < MaxCrash /\ crashes' = crashes + 1 /\ pc' = "down" /\ mem' = 99
         /\ UNCHANGED <<rows, cur, n, faulted, stable>>
Load1 == pc = "down" /\ pc' = "l1" /\ UNCHANGED <<rows, mem, cur, n, crashes, faulted, stable>>      \* GetKeysets
Load2 == /\ pc = "l1"
         /\ IF Active # {}
            THEN /\ mem' = (CHOOSE r \in Active : TRUE).idx /\ UNCHANGED rows
            ELSE CASE Recovery = "latest" -> rows' = SetActive(MaxIdx, TRUE) /\ mem' = MaxIdx
                   [] Recovery = "oldest" -> rows' = SetActive(MinIdx, TRUE) /\ mem' = MinIdx
                   [] Recovery = "none"   -> mem' = 99 /\ UNCHANGED rows            \* nil dereference: the mint cannot start
         /\ pc' = (IF mem' = 99 THEN "down" ELSE "idle")
         /\ UNCHANGED <<cur, n, crashes, faulted, stable>>

Next == Start \/ GetSeed \/ Deactivate \/ SaveNew \/ Rollback \/ Fault \/ Crash \/ Load1 \/ Load2
Spec == Init /\ [][Next]_vars

\* ---- properties ----
\* C09: whenever the mint is up and no rotation is in progress, exactly one keyset is active, it is the one the process
\* signs with, and it is the one that was active before the interrupted rotation or the new one ("keysets unchanged")
Inv_OneActive == pc = "idle" => (Cardinality(Active) = 1 /\ \A r \in Active : r.idx = mem)
Inv_Unchanged == pc = "idle" => mem = stable
\* C07: the mint can always be started again
Inv_CanStart  == ~(pc = "down" /\ crashes >= 1 /\ Active = {} /\ Recovery = "none")
\* a keyset never comes back once a newer one has been active, and indices are never reused
Inv_Rows      == \A r1, r2 \in rows : r1.idx = r2.idx => r1 = r2
=============================================================================
