-------------------------- MODULE MintStepsTrace --------------------------
(***************************************************************************)
(* Conformance of the real mint to MintSteps (layer 2).                    *)
(*                                                                         *)
(* Input (IOEnv.VERIF_EXECS, ndjson): executions of ONE scenario recorded  *)
(* by the schedule explorer on the real mint: the sequence of              *)
(* <<request, storage/Lightning call>> in the order the calls were made,   *)
(* and each request's reply.  Every execution is an initial state; it is   *)
(* accepted iff MintSteps can take exactly these steps in this order       *)
(* (Lightning answers are not logged: TLC infers them, Scn.ln = "any") and *)
(* ends with the same replies.  A rejected execution is DRIFT between      *)
(* code and model - reported in the evidence, never a verdict by itself    *)
(* (reordering two reads breaks no property); an accepted one ties the     *)
(* exhaustive MintSteps result to what the code does.                      *)
(***************************************************************************)
EXTENDS MintSteps, SequencesExt

Execs == ndJsonDeserialize(IOEnv.VERIF_EXECS)
OutFile == IOEnv.VERIF_TAGS
NE == Len(Execs)

VARIABLES ex, l, hw
tvars == <<vars, ex, l, hw>>

Sched(e) == Execs[e].sched

\* replies: same outcome class (ok / error) and, where the reply carries a quote state, the same state
ReplyOK(e) == \A p \in Procs :
                 LET want == Execs[e].res[p] IN
                 \/ want = "*"
                 \/ res[p] = want
                 \/ (Len(want) >= 3 /\ SubSeq(want, 1, 3) = "err" /\ Len(res[p]) >= 3 /\ SubSeq(res[p], 1, 3) = "err")
                 \/ (want = "ok" /\ Len(res[p]) >= 2 /\ SubSeq(res[p], 1, 2) = "ok")

TInit == Init /\ ex \in 1..NE /\ l = 1 /\ hw = 0
         /\ \A k \in 1..NE : TLCSet(k, 0)

TStep ==
  /\ l <= Len(Sched(ex))
  /\ Next
  /\ last'[1] = Sched(ex)[l].p /\ last'[2] = Sched(ex)[l].c
  /\ l' = l + 1 /\ ex' = ex
  /\ hw' = l /\ (IF TLCGet(ex) < l THEN TLCSet(ex, l) ELSE TRUE)     \* longest matched prefix, for the drift report

TEnd ==
  /\ l = Len(Sched(ex)) + 1
  /\ ReplyOK(ex)
  /\ TLCSet(ex, 1000000)
  /\ l' = l + 1 /\ UNCHANGED <<vars, ex, hw>>

\* a melt's return (the deferred removal from meltsInProgress) makes no storage call: it is not in the recorded sequence
TSilent ==
  /\ \E p \in Procs : pc[p] = "ret" /\ Melt(p)
  /\ UNCHANGED <<ex, l, hw>>

TNext == TStep \/ TSilent \/ TEnd
TSpec == TInit /\ [][TNext]_tvars

WriteResult ==
  ndJsonSerialize(OutFile, <<[executions |-> NE,
                              accepted |-> SetToSeq({k \in 1..NE : TLCGet(k) = 1000000}),
                              matched |-> [k \in 1..NE |-> TLCGet(k)]]>>)
=============================================================================
