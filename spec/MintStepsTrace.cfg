SPECIFICATION TSpec
CHECK_DEADLOCK FALSE
POSTCONDITION WriteResult
