---- MODULE LocksValidate ----
EXTENDS Locks
ASSUME Validate(IOEnv.VERIF_TAGS)
====
