INIT Init
NEXT Next
