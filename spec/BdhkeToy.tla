------------------------------ MODULE BdhkeToy ------------------------------
(***************************************************************************)
(* The algebra of Bdhke.tla in a toy prime-order group: the additive group *)
(* Z_q with generator 1 ("k * P" is multiplication mod q).  Here TLC       *)
(* checks the identities of C10 for ALL keys, blinding factors, message    *)
(* points, DLEQ nonces and challenges, which the sampled reference         *)
(* evaluation on secp256k1 cannot do.  It says nothing about the Go        *)
(* big-number code; it shows the protocol equations are the right ones.    *)
(***************************************************************************)
EXTENDS Integers, TLC

Z(q) == 0..(q - 1)
M(a, q) == a % q
Blind(y, r, q) == M(y + r, q)                 \* B_ = Y + rG
Sign(b, k, q) == M(k * b, q)                  \* C_ = kB_
Unblind(c_, r, K, q) == M(c_ - r * K, q)      \* C = C_ - rK
Verify(y, k, c, q) == M(k * y, q) = c

\* DLEQ with nonce p and challenge e (the hash is an arbitrary function: e is universally quantified)
R1(p) == p
R2(p, b, q) == M(p * b, q)
S(p, e, a, q) == M(p + e * a, q)
R1v(s, e, A, q) == M(s - e * A, q)
R2v(s, e, b, c_, q) == M(s * b - e * c_, q)

Identities(q) ==
  \A k \in Z(q) \ {0}, y \in Z(q), r \in Z(q) :
    LET K == k
        c == Unblind(Sign(Blind(y, r, q), k, q), r, K, q)
    IN /\ c = M(k * y, q)                                        \* unblinding gives k * Y ...
       /\ Verify(y, k, c, q)                                     \* ... which verifies under k
       /\ \A r2 \in Z(q) : Unblind(Sign(Blind(y, r2, q), k, q), r2, K, q) = c   \* independent of r
       /\ \A k2 \in Z(q) \ {0, k} : y # 0 => ~Verify(y, k2, c, q)               \* fails under any other key
       /\ \A y2 \in Z(q) \ {y} : ~Verify(y2, k, c, q)                           \* ... and for any other message point

DleqComplete(q) ==
  \A a \in Z(q) \ {0}, b \in Z(q), p \in Z(q), e \in Z(q) :
    LET c_ == Sign(b, a, q)
        s == S(p, e, a, q)
    IN R1v(s, e, a, q) = R1(p) /\ R2v(s, e, b, c_, q) = R2(p, b, q)

\* a signature made with another key than the published one changes R2 for every non-zero challenge
DleqSound(q) ==
  \A a \in Z(q) \ {0}, a2 \in Z(q) \ {0}, b \in Z(q) \ {0}, p \in Z(q), e \in Z(q) \ {0} :
    a2 # a => R2v(S(p, e, a, q), e, b, Sign(b, a2, q), q) # R2(p, b, q)

ASSUME \A q \in {5, 7, 11, 13} : Identities(q) /\ DleqComplete(q) /\ DleqSound(q)
ASSUME PrintT(<<"TOY", "checked for q in", {5, 7, 11, 13}>>)

VARIABLE x
Init == x = 0
Next == x' = x
=============================================================================
