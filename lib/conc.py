"""Concurrent executions: the harness enumerates interleavings of 2-3 requests on the real mint at
storage/Lightning-call granularity (sleep-set reduced, complete unless capped); TLC (MintAccept)
searches, for every recorded execution, a linearization that MintAPI allows."""
import json
import os
import re
import shutil
import time
from concurrent.futures import ThreadPoolExecutor

from core import BIN, Infra, build_harness, goenv, run, rundir, save_replay, seed, spec_copy, split_known, tier, tlc

FUND = [{"op": "mintquote", "amt": 13}, {"op": "settle", "q": "mq1"},
        {"op": "mint", "q": "mq1", "outs": [{"amt": 8}, {"amt": 4}, {"amt": 1}]}]
PROBE = [{"op": "checkstate", "ys": ["b1", "b2", "b3", "b4", "b5", "b6", "b7"]},
         {"op": "restore", "bs": ["b1", "b2", "b3", "b4", "b5", "b6", "b7"]}, {"op": "balances"}]


def scenario(name, prop, prefix, conc, post=None, fee=0, policy="pct1"):
    return {"name": name, "prop": prop, "fee": fee, "policy": policy, "prefix": prefix, "conc": conc,
            "post": PROBE if post is None else post}


def swap(p, outs, var=""):
    return {"op": "swap", "ins": [{"p": p, "var": var}], "outs": [{"amt": a} for a in outs]}


def melt(q, p, pay=None, status=None):
    op = {"op": "melt", "q": q, "ins": [{"p": x} for x in (p if isinstance(p, list) else [p])]}
    if pay:
        op["pay"] = pay
    if status:
        op["status"] = status
    return op


def c01_scenarios():
    mq = lambda amt: {"op": "meltquote", "kind": "ext", "amt": amt}
    s = []
    s.append(scenario("swap-swap", "C01", FUND, [swap("b1", [8]), swap("b1", [4, 4])]))
    s.append(scenario("swap-swapwit", "C01", FUND, [swap("b1", [8]), swap("b1", [4, 4], "wit")]))
    s.append(scenario("swap-melt", "C01", FUND + [mq(7)], [swap("b1", [8]), melt("lq1", "b1")]))
    s.append(scenario("swap-meltpending", "C01", FUND + [mq(7)], [swap("b1", [8]), melt("lq1", "b1", pay=["pending"])]))
    s.append(scenario("swap-meltfail", "C01", FUND + [mq(7)], [swap("b1", [8]), melt("lq1", "b1", pay=["failed"], status=["failed"])]))
    s.append(scenario("melt-melt-samequote", "C01", FUND + [mq(3)], [melt("lq1", "b2"), melt("lq1", "b2")]))
    s.append(scenario("melt-melt-otherquote", "C01", FUND + [mq(3), mq(2)], [melt("lq1", "b2"), melt("lq2", "b2")]))
    s.append(scenario("melt-melt-samequote-otherproof", "C01", FUND + [mq(3)], [melt("lq1", "b2"), melt("lq1", "b1")]))
    pend = FUND + [mq(7), melt("lq1", "b1", pay=["pending"])]
    s.append(scenario("swap-pollmelt-success", "C01", pend, [swap("b1", [8]), {"op": "pollmelt", "q": "lq1", "status": ["succeeded"]}]))
    s.append(scenario("swap-pollmelt-failed", "C01", pend, [swap("b1", [8]), {"op": "pollmelt", "q": "lq1", "status": ["failed"]}]))
    s.append(scenario("swap-checkstate-success", "C01", pend, [swap("b1", [8]), {"op": "checkstate", "ys": ["b1"], "status": ["succeeded"]}]))
    s.append(scenario("pollmelt-pollmelt-success", "C01", pend, [{"op": "pollmelt", "q": "lq1", "status": ["succeeded", "succeeded"]},
                                                                 {"op": "pollmelt", "q": "lq1"}]))
    s.append(scenario("melt-pollmelt", "C01", pend + [mq(3)], [melt("lq2", "b1"), {"op": "pollmelt", "q": "lq1", "status": ["failed"]}]))
    # a window that needs more requests than the enumeration can afford, run as one fixed schedule: melt A's payment fails; before
    # A cleans up, a poll of its quote releases the inputs and melt C locks them for another quote (payment in flight); then A
    # finishes.  Follow-up: a swap of the inputs, and C's payment succeeds.
    late = scenario("melt-fails-late-cleanup", "C01", FUND + [mq(7), mq(6)],
                    [melt("lq1", "b1", pay=["failed"], status=["failed"]), {"op": "pollmelt", "q": "lq1", "status": ["failed"]},
                     melt("lq2", "b1", pay=["pending"])],
                    post=PROBE + [swap("b1", [8]), {"op": "pollmelt", "q": "lq2", "status": ["succeeded"]}, {"op": "checkstate", "ys": ["b1"]},
                                  {"op": "balances"}])
    late["schedules"] = [["p1"] * 8 + ["p2"] * 6 + ["p3"] * 8]
    late["lenient"] = True   # since the in-progress guard (68c3b64) the poll no longer takes these steps
    s.append(late)
    # found by TLC on MintSteps (scenario melt-poll-melt-swap, Inv_Quiet): the same window with the second melt on the SAME
    # quote; melt A holds the answer "failed" about its own attempt (a slow backend answer: lateanswers), a poll releases the
    # inputs, melt C locks them again for the quote, A's clean-up cannot tell C's lock from its own.  Repaired in /repo
    # (meltsInProgress); the schedule stays as a regression test and is lenient where the repaired code refuses a step.
    late2 = scenario("melt-fails-late-cleanup-samequote", "C01", FUND + [mq(7)],
                     [melt("lq1", "b1", pay=["failed"], status=["failed"]), {"op": "pollmelt", "q": "lq1", "status": ["failed"]},
                      melt("lq1", "b1", pay=["pending"])],
                     post=PROBE + [swap("b1", [8]), {"op": "pollmelt", "q": "lq1", "status": ["succeeded"]}, {"op": "checkstate", "ys": ["b1"]},
                                   {"op": "balances"}])
    late2["lateanswers"] = True
    late2["lenient"] = True
    late2["schedules"] = [["p1"] * 10 + ["p2"] * 7 + ["p3"] * 9 + ["p1"] * 4]
    s.append(late2)
    # two polls and a new attempt of the same quote while a payment is pending, with slow backend answers: an answer about
    # the first attempt must not be applied to the second
    ppm = scenario("pollmelt-pollmelt-remelt-late", "C01", pend,
                   [{"op": "pollmelt", "q": "lq1", "status": ["failed"]}, {"op": "pollmelt", "q": "lq1", "status": ["failed"]},
                    melt("lq1", "b1", pay=["pending"])],
                   post=PROBE + [swap("b1", [8]), {"op": "pollmelt", "q": "lq1", "status": ["succeeded"]}, {"op": "checkstate", "ys": ["b1"]},
                                 {"op": "balances"}])
    ppm["lateanswers"] = True
    if tier() != "thorough":
        # quick: the one schedule in which poll A's answer is still on its way while poll B and the new attempt run (688
        # interleavings when enumerated, thorough tier); lenient, because the unchanged code holds the lock across the lookup
        ppm["lenient"] = True
        ppm["schedules"] = [["p1"] * 3 + ["p2"] * 7 + ["p3"] * 9]
    s.append(ppm)
    # a retry of a quote whose first attempt failed: the backend's FAILED about the first attempt is the truth until the new payment
    # reaches it; a poll in the window between the retry's PENDING writes and its payment must leave the quote alone
    failed1 = FUND + [mq(7), melt("lq1", "b1", pay=["failed"], status=["failed"])]
    rm = scenario("remelt-pollmelt-swap", "C01", failed1, [melt("lq1", "b1"), {"op": "pollmelt", "q": "lq1"}, swap("b1", [8])],
                  post=PROBE + [{"op": "pollmelt", "q": "lq1"}, {"op": "checkstate", "ys": ["b1"]}, {"op": "balances"}])
    if tier() != "thorough":
        rm["lenient"] = True     # quick: the window itself (retry stopped in front of GetMintQuoteByPaymentHash); thorough: all interleavings
        rm["schedules"] = [["p1"] * 6 + ["p2"] * 7 + ["p3"] * 6, ["p1"] * 7 + ["p2"] * 7 + ["p3"] * 6]
    s.append(rm)
    if tier() == "thorough":
        s.append(scenario("swap-swap-swap", "C01", FUND, [swap("b1", [8]), swap("b1", [4, 4]), swap("b1", [2, 2, 4])]))
        s.append(scenario("swap-swap-melt", "C01", FUND + [mq(7)], [swap("b1", [8]), swap("b1", [4, 4]), melt("lq1", "b1")]))
        # a melt in its window between the PENDING writes and the payment, a poll of its quote that the backend answers with
        # "no such payment" (the truth at that moment), and a swap of its inputs
        s.append(scenario("melt-pollmelt-swap", "C01", FUND + [mq(7)], [melt("lq1", "b1"), {"op": "pollmelt", "q": "lq1"}, swap("b1", [8])]))
        s.append(scenario("swap-melt-pollmelt", "C01", FUND + [mq(7)], [swap("b1", [8]), melt("lq1", "b1", pay=["pending"]),
                                                                       {"op": "pollmelt", "q": "lq1", "status": ["succeeded"]}]))
    return s


def c03_scenarios():
    q = [{"op": "mintquote", "amt": 8}, {"op": "settle", "q": "mq1"}]
    m = lambda outs: {"op": "mint", "q": "mq1", "outs": [{"amt": a} for a in outs]}
    s = []
    s.append(scenario("mint-mint", "C03", q, [m([8]), m([4, 4])]))
    s.append(scenario("mint-notify", "C03", q, [m([8]), {"op": "notify", "q": "mq1"}], post=PROBE + [m([4, 4])]))
    s.append(scenario("mint-pollmint", "C03", q, [m([8]), {"op": "pollmint", "q": "mq1"}], post=PROBE + [m([4, 4])]))
    s.append(scenario("mint-mintbad", "C03", q, [m([8]), m([8, 1])], post=PROBE + [m([4, 4])]))
    s.append(scenario("mint-notify-polled", "C03", q + [{"op": "pollmint", "q": "mq1"}], [m([8]), {"op": "notify", "q": "mq1"}],
                      post=PROBE + [m([4, 4])]))
    # the same quote paid twice (from outside and by an internal melt) while it is being minted: one issue per payment
    fund13 = [{"op": "mintquote", "amt": 13}, {"op": "settle", "q": "mq1"}, {"op": "mint", "q": "mq1", "outs": [{"amt": 8}, {"amt": 4}, {"amt": 1}]}]
    m2 = lambda outs: {"op": "mint", "q": "mq2", "outs": [{"amt": a} for a in outs]}
    own = fund13 + [{"op": "mintquote", "amt": 8}, {"op": "meltquote", "kind": "int", "q": "mq2"}, {"op": "settle", "q": "mq2"}]
    s.append(scenario("mint-meltinternal", "C03", own, [m2([8]), {"op": "melt", "q": "lq1", "ins": [{"p": "b1"}]}],
                      post=PROBE + [m2([4, 4]), m2([2, 2, 4])]))
    lockq = [{"op": "mintquote", "amt": 8, "lock": "K1"}, {"op": "settle", "q": "mq1"}]
    s.append(scenario("mintlocked-mintnosig", "C03", lockq, [m([8]), dict(m([4, 4]), sig="none")]))
    if tier() == "thorough":
        s.append(scenario("mint-mint-mint", "C03", q, [m([8]), m([4, 4]), m([2, 2, 4])]))
        s.append(scenario("mint-mint-notify", "C03", q, [m([8]), m([4, 4]), {"op": "notify", "q": "mq1"}], post=PROBE + [m([2, 2, 4])]))
        s.append(scenario("mint-poll-notify", "C03", q, [m([8]), {"op": "pollmint", "q": "mq1"}, {"op": "notify", "q": "mq1"}],
                          post=PROBE + [m([4, 4])]))
    return s


def explore(d, scns, max_exec, workers=14):
    build_harness()
    sin = os.path.join(d, "scenarios.json")
    with open(sin, "w") as f:
        json.dump(scns, f)
    out = os.path.join(d, "explore")
    scratch = "/dev/shm/verif-explore-%d" % os.getpid() if os.path.isdir("/dev/shm") else os.path.join(d, "scratch")
    rc, txt = run([os.path.join(BIN, "vharness"), "explore", "-in", sin, "-out", out, "-scratch", scratch, "-seed", str(seed()),
                   "-workers", str(workers), "-max", str(max_exec), "-shard", "400"], env=goenv(), timeout=3400)
    shutil.rmtree(scratch, ignore_errors=True)
    if rc != 0:
        raise Infra("explorer failed (rc=%d):\n%s" % (rc, txt[-3000:]))
    with open(os.path.join(out, "index.json")) as f:
        idx = json.load(f)
    return out, idx


def accept_shard(sd, shard_path, k):
    """One TLC run (depth-first queue, one worker) validating every execution of a shard."""
    import shutil as sh
    sdk = sd + "_%d" % k
    sh.copytree(sd, sdk)
    res = os.path.join(os.path.dirname(shard_path), "accept%03d.json" % k)
    rc, out, dt = tlc(sdk, "MintAccept.tla", "MintAccept.cfg", env={"VERIF_TRACE": shard_path, "VERIF_TAGS": res},
                      workers=1, deque=True, timeout=1500, xmx="3g")
    if rc != 0 or not os.path.exists(res):
        raise Infra("TLC acceptance run failed on %s (rc=%d):\n%s" % (shard_path, rc, out[-3000:]))
    with open(res) as f:
        r = json.loads(f.readline())
    m = re.search(r"(\d+) states generated, (\d+) distinct states found", out)
    r["states"] = int(m.group(2)) if m else 0
    r["generated"] = int(m.group(1)) if m else 0
    sh.rmtree(sdk, ignore_errors=True)
    return r


def load_shard(path):
    execs = []
    with open(path) as f:
        for line in f:
            e = json.loads(line)
            if e["ev"] == "init":
                execs.append([])
            execs[-1].append(e)
    return execs


def err_class(detail):
    d = detail.lower()
    for pat, c in (("unique constraint failed: proofs", "save-proofs-unique"), ("unique constraint failed: pending", "add-pending-unique"),
                   ("unique constraint failed: blind", "save-sigs-unique"), ("pending", "pending"), ("already used", "spent"),
                   ("already issued", "issued"), ("not been paid", "unpaid"), ("already paid", "lqpaid")):
        if pat in d:
            return c
    return "other" if d else ""


def signature(scn_name, ex):
    """What went wrong in a rejected execution, independent of ids and of the exact schedule."""
    parts = []
    for e in ex:
        if e.get("proc"):
            r = e["r"]
            if r.get("panic"):
                parts.append("%s:panic" % e["ev"])
            elif r.get("ok"):
                parts.append("%s:ok%s" % (e["ev"], ("/" + r["st"]) if r.get("st") else ""))
            else:
                parts.append("%s:err:%s" % (e["ev"], err_class(r.get("detail", ""))))
    sync = [e for e in ex if e["ev"] == "sync"]
    fin = ""
    if sync:
        post = sync[0]["post"]
        fin = "|lq=" + ",".join("%s" % post["lq"][q]["st"] for q in sorted(post.get("lq", {}))) + \
              "|mq=" + ",".join("%s" % post["mq"][q]["st"] for q in sorted(post.get("mq", {}))) + \
              ("|paid" if post.get("lnout", 0) else "")
    return scn_name + "|" + "+".join(sorted(parts)) + fin


def check(prop, scns, level="model_checking", sub="", design=True, max_exec=None):
    from core import write_evidence
    t0 = time.time()
    d = rundir("%s_conc%s_%s" % (prop, sub, tier()))
    sd = spec_copy(d)
    max_exec = max_exec or (1500 if tier() == "quick" else 20000)
    out, idx = explore(d, scns, max_exec)
    bytr = {i["tr"]: i for i in idx["index"]}
    shards = sorted(f for f in os.listdir(out) if f.startswith("shard"))
    with ThreadPoolExecutor(max_workers=8) as pool:
        results = list(pool.map(lambda kv: accept_shard(sd, os.path.join(out, kv[1]), kv[0]), enumerate(shards)))
    rejected = []
    total_exec, states, gen = 0, 0, 0
    sample = None
    for k, sh in enumerate(shards):
        execs = load_shard(os.path.join(out, sh))
        r = results[k]
        if r["executions"] != len(execs):
            raise Infra("shard %s: TLC saw %d executions, harness wrote %d" % (sh, r["executions"], len(execs)))
        total_exec += len(execs)
        states += r["states"]
        gen += r["generated"]
        acc = set(r["accepted"])
        for i, ex in enumerate(execs):
            if sample is None:
                sample = ex
            if (i + 1) not in acc:
                tr = ex[0]["tr"]
                rejected.append((bytr[tr], ex))
    sigs = {}
    for info, ex in rejected:
        sigs.setdefault(signature(re.sub(r"#\d+$", "", info["scenario"]), ex), []).append((info, ex))
    unknown, known = split_known(prop, list(sigs))
    for k in known:
        print("KNOWN-FINDING: property=%s %s (%s; %d executions)" % (prop, k["key"], k.get("what", ""), len(sigs[k["key"]])))
    viol = []
    for key in unknown:
        info, ex = sigs[key][0]
        scn = [s for s in scns if s["name"] == info["scenario"]][0]
        path = save_replay(prop, "conc-" + re.sub(r"[^A-Za-z0-9]+", "_", key)[:80],
                           {"property": prop, "kind": "conc", "key": key, "seed": seed(), "scenario": scn, "schedule": info["schedule"],
                            "rejected_executions_with_this_signature": len(sigs[key]),
                            "events": [{"ev": e["ev"], "proc": e.get("proc"), "c": e["c"], "t": e["t"], "r": e["r"]} for e in ex if e.get("proc")],
                            "final": [e["post"] for e in ex if e["ev"] == "sync"]})
        print("VIOLATION property=%s replay=%s" % (prop, path))
        print("  finding: %s" % key)
        viol.append(key)
    complete = all(s["complete"] for s in idx["summary"])
    # layer 2: MintSteps (the mint at storage / Lightning call granularity) model-checked exhaustively, and every recorded call
    # sequence of the real mint validated against it
    import steps
    by_tr = {}
    for sh in shards:
        for ex in load_shard(os.path.join(out, sh)):
            by_tr[ex[0]["tr"]] = ex
    try:
        layer2 = steps.design_check(sd, with_crash=False) if design else {"distinct_states": 0, "states_generated": 0, "skipped": "run with the enumerated scenarios"}
        conf = steps.conformance(sd, scns, idx, by_tr)
    except Infra as ex:
        if not viol:
            raise
        # a verdict from the real mint stands; what went wrong in the model-side analysis is reported with it
        print("NOTE: layer 2 analysis did not complete: %s" % str(ex)[:300])
        layer2 = {"error": str(ex)[:500], "distinct_states": 0, "states_generated": 0}
        conf = {"error": str(ex)[:500], "drift": 0, "executions": 0, "per_scenario": []}
    if conf["drift"]:
        print("NOTE: %d of %d recorded call sequences are not behaviours of MintSteps (model drift, not a verdict): %s" % (
            conf["drift"], conf["executions"], [(r["scenario"], r["drift"][:1]) for r in conf["per_scenario"] if r["drift_n"]][:4]))
    states += layer2["distinct_states"]
    gen += layer2["states_generated"]
    # where the code leaves the model, look closer: all completions of the schedule up to that point (real executions, same judge)
    drift_cov, drift_viol = None, 0
    if conf.get("drift") and sub != "_drift":
        drift_cov, drift_viol = drift_check(prop, scns, idx, conf)
    cov = {
        "layer2_model": layer2, "layer2_conformance": conf, "drift_directed": drift_cov,
        "states": max(states, 1), "transitions": max(gen, 1), "traces_validated_against_impl": total_exec,
        "samples": [{"scenario": scns[0], "schedule": idx["index"][0]["schedule"] if idx["index"] else []},
                    {"recorded": [{"ev": e["ev"], "proc": e.get("proc"), "c": e["c"], "t": e["t"], "r": e["r"]} for e in (sample or [])][:8]}],
        "evaluations": total_exec, "distinct_nontrivial": total_exec,
        "rule": "every execution is a distinct Mazurkiewicz-inequivalent interleaving (stateless DFS with sleep sets over storage/LN "
                "calls) of the scenario's concurrent requests on a fresh real mint; each is validated by TLC (MintAccept: "
                "linearizability search against MintAPI)",
        "scenarios": idx["summary"], "exhaustive": complete, "rejected_executions": len(rejected),
        "rejected_signatures": {k: len(v) for k, v in sigs.items()},
        "known_findings_seen": [k["key"] for k in known],
    }
    return cov, len(viol) + drift_viol, time.time() - t0


def guided_templates():
    """Scenarios of four and five concurrent requests - more than the enumeration of interleavings can afford - whose schedules are
    drawn from behaviours of MintSteps (TLC simulation) and replayed on the real mint."""
    mq = lambda amt: {"op": "meltquote", "kind": "ext", "amt": amt}
    pm = lambda q: {"op": "pollmelt", "q": q}
    post1 = PROBE + [pm("lq1"), {"op": "checkstate", "ys": ["b1"]}, {"op": "balances"}]
    post2 = PROBE + [pm("lq1"), pm("lq2"), {"op": "checkstate", "ys": ["b1"]}, {"op": "balances"}]
    pend = FUND + [mq(7), melt("lq1", "b1", pay=["pending"])]
    return [
        scenario("G/melt-poll-melt-swap", "C01", FUND + [mq(7)], [melt("lq1", "b1"), pm("lq1"), melt("lq1", "b1"), swap("b1", [8])], post=post1),
        scenario("G/melt-poll-melt2-swap-poll2", "C01", FUND + [mq(7), mq(6)],
                 [melt("lq1", "b1"), pm("lq1"), melt("lq2", "b1"), swap("b1", [8]), pm("lq2")], post=post2),
        scenario("G/poll-poll-remelt-swap", "C01", pend, [pm("lq1"), pm("lq1"), melt("lq1", "b1"), swap("b1", [8])], post=post1),
        scenario("G/melt-melt-poll-swap-swap", "C01", FUND + [mq(7)],
                 [melt("lq1", "b1"), melt("lq1", "b1"), pm("lq1"), swap("b1", [8]), swap("b1", [4, 4])], post=post1),
    ]


def guided_templates_c03():
    q = [{"op": "mintquote", "amt": 8}, {"op": "settle", "q": "mq1"}]
    m = lambda qq, outs: {"op": "mint", "q": qq, "outs": [{"amt": a} for a in outs]}
    fund13 = [{"op": "mintquote", "amt": 13}, {"op": "settle", "q": "mq1"}, {"op": "mint", "q": "mq1", "outs": [{"amt": 8}, {"amt": 4}, {"amt": 1}]}]
    own = fund13 + [{"op": "mintquote", "amt": 8}, {"op": "meltquote", "kind": "int", "q": "mq2"}, {"op": "settle", "q": "mq2"}]
    post = PROBE + [{"op": "pollmint", "q": "mq1"}, m("mq1", [1, 1, 2, 4])]
    post2 = PROBE + [{"op": "pollmint", "q": "mq2"}, m("mq2", [1, 1, 2, 4]), m("mq2", [1, 2, 1, 4])]
    return [
        scenario("G/mint-mint-mint-pollmint", "C03", q, [m("mq1", [8]), m("mq1", [4, 4]), m("mq1", [2, 2, 4]), {"op": "pollmint", "q": "mq1"}], post=post),
        scenario("G/mint-mint-pollmint-notify", "C03", q, [m("mq1", [8]), m("mq1", [4, 4]), {"op": "pollmint", "q": "mq1"}, {"op": "notify", "q": "mq1"}], post=post),
        scenario("G/mint-meltinternal-mint-pollmint", "C03", own,
                 [m("mq2", [8]), {"op": "melt", "q": "lq1", "ins": [{"p": "b1"}]}, m("mq2", [4, 4]), {"op": "pollmint", "q": "mq2"}], post=post2),
    ]


def guided_check(prop, num=None):
    """Behaviours of MintSteps (TLC -simulate) replayed on the real mint as fixed schedules with the behaviour's Lightning answers
    scripted; every execution validated by MintAccept, its call sequence by MintStepsTrace."""
    import steps
    num = num or ((8 if tier() == "quick" else 60) if prop == "C03" else (25 if tier() == "quick" else 200))
    sd0 = spec_copy(rundir("%s_guidedgen_%s" % (prop, tier())))
    scns, stats = steps.guided_scenarios(sd0, guided_templates_c03() if prop == "C03" else guided_templates(), num, seed())
    cov, nviol, dt = check(prop, scns, sub="_guided", design=False)
    cov["generated_from_model"] = stats
    cov.pop("samples", None)
    return cov, nviol, dt


def drift_scenarios(scns, idx, conf, limit=6):
    """Where a recorded call sequence of the real mint is not a behaviour of MintSteps, the code does something the model does not
    know: the schedule up to the last step they agree on becomes the prefix of a new scenario whose completions are all explored."""
    bytr = {i["tr"]: i for i in idx["index"]}
    byname = {s["name"]: s for s in scns}
    out, seen = [], set()
    for r in conf.get("per_scenario", []):
        for dr in r.get("drift", []):
            info = bytr.get(dr["tr"])
            if not info or dr["matched_steps"] >= len(info["schedule"]) or dr["matched_steps"] < 1:
                continue
            base = re.sub(r"#\d+$", "", r["scenario"])
            key = (base, dr["first_unmatched"])
            if key in seen:
                continue
            seen.add(key)
            e = json.loads(json.dumps(byname[r["scenario"]]))
            for k in ("schedules", "lenient", "model_schedule"):
                e.pop(k, None)
            e["name"] = "%s@drift%d" % (base, len(seen))
            # the step that cannot be explained is where the consequence shows, the cause lies earlier: keep half of the common prefix
            e["from"] = [x.split(":", 1)[0] for x in info["schedule"][:dr["matched_steps"] // 2]]
            e["drift_at"] = dr["first_unmatched"]
            out.append(e)
            if len(out) >= limit:
                return out
    return out


def drift_check(prop, scns, idx, conf):
    """Drift-directed exploration (nothing to do on a tree that conforms to MintSteps)."""
    ds = drift_scenarios(scns, idx, conf)
    if not ds:
        return None, 0
    try:
        cov, nviol, _ = check(prop, ds, sub="_drift", design=False, max_exec=250)
    except Infra as ex:
        print("NOTE: drift-directed exploration did not complete: %s" % str(ex)[:300])
        return {"error": str(ex)[:300]}, 0
    return {"explored_from": [{"scenario": x["name"], "prefix_steps": len(x["from"]), "first_step_outside_the_model": x["drift_at"]} for x in ds],
            "executions": cov["traces_validated_against_impl"], "rejected_signatures": cov["rejected_signatures"]}, nviol
