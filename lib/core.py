"""Shared machinery of the checks: building the harness from /repo's working tree, running TLC
(history generation, exhaustive model checking, trace monitoring), known findings, evidence
and verdicts.  Exit codes: 0 held, 1 violation (VIOLATION line printed), 2 infrastructure."""
import hashlib
import json
import os
import re
import shutil
import subprocess
import sys
import time

VERIF = os.path.dirname(os.path.dirname(os.path.abspath(__file__)))
REPO = "/repo"
OUT = os.path.join(VERIF, "out")
SPEC = os.path.join(VERIF, "spec")
BIN = os.path.join(VERIF, "bin")
TLA_CP = "/opt/veriftools/tla/tla2tools.jar:/opt/veriftools/tla/CommunityModules-deps.jar"


class Infra(Exception):
    pass


def tier():
    return "thorough" if os.environ.get("VERIF_TIER", "quick") == "thorough" else "quick"


def seed():
    try:
        return int(os.environ.get("VERIF_SEED", "1"))
    except ValueError:
        return 1


def goenv():
    env = dict(os.environ)
    env["GOFLAGS"] = "-mod=mod"
    env["GOPROXY"] = "off"
    env.pop("GOTOOLCHAIN", None)
    env.pop("GOSUMDB", None)
    tmp = os.path.join(OUT, "tmp")
    os.makedirs(tmp, exist_ok=True)
    env["TMPDIR"] = tmp
    return env


def run(cmd, cwd=None, env=None, timeout=None, capture=True):
    p = subprocess.run(cmd, cwd=cwd, env=env, timeout=timeout,
                       stdout=subprocess.PIPE if capture else None,
                       stderr=subprocess.STDOUT if capture else None, text=True)
    return p.returncode, (p.stdout or "")


_built = False


def build_harness():
    """Rebuild the harness against /repo's current working tree with the hooks enabled."""
    global _built
    if _built:
        return
    os.makedirs(BIN, exist_ok=True)
    lock = os.path.join(OUT, "build.lock")
    os.makedirs(OUT, exist_ok=True)
    import fcntl
    with open(lock, "w") as lf:
        fcntl.flock(lf, fcntl.LOCK_EX)
        rc, out = run(["sh", os.path.join(VERIF, "harness", "gen_gomod.sh")])
        if rc != 0:
            raise Infra("gen_gomod failed: " + out)
        rc, out = run(["go", "build", "-tags", "verif", "-o", os.path.join(BIN, "vharness"), "./cmd/vharness"],
                      cwd=os.path.join(VERIF, "harness"), env=goenv(), timeout=1500)
    if rc != 0:
        raise Infra("harness build failed (does /repo compile with -tags verif?):\n" + out[-4000:])
    _built = True


def rundir(name):
    if os.environ.get("VERIF_REPLAY"):
        name = "replay_" + name
    d = os.path.join(OUT, "run", "%s_s%d" % (name, seed()))
    shutil.rmtree(d, ignore_errors=True)
    os.makedirs(d)
    return d


def spec_copy(d):
    """TLC litters its working directory: run it in a scratch copy of the spec directory."""
    sd = os.path.join(d, "spec")
    shutil.copytree(SPEC, sd, ignore=shutil.ignore_patterns("states", "*.bin", "*TTrace*"))
    return sd


def tlc(sd, module, cfg, args=(), env=None, timeout=600, xmx="4g", workers=None, deque=False, extra_cp=None):
    e = dict(os.environ)
    if env:
        e.update(env)
    cp = TLA_CP + ":" + sd + (":" + extra_cp if extra_cp else "")
    tmpd = os.path.join(sd, "jtmp")          # TLC leaves an empty directory per run in java.io.tmpdir: keep it out of /tmp
    os.makedirs(tmpd, exist_ok=True)
    jopts = ["-XX:+UseParallelGC", "-Xmx" + xmx, "-Xss64m", "-Djava.io.tmpdir=" + tmpd]
    if deque:
        jopts.append("-Dtlc2.tool.queue.IStateQueue=StateDeque")
    cmd = ["java"] + jopts + ["-cp", cp, "tlc2.TLC", "-metadir", os.path.join(sd, "md_" + cfg.replace(".", "_")),
                              "-config", cfg]
    if workers:
        cmd += ["-workers", str(workers)]
    cmd += list(args) + [module]
    t0 = time.time()
    try:
        rc, out = run(cmd, cwd=sd, env=e, timeout=timeout)
    except subprocess.TimeoutExpired:
        subprocess.run(["pkill", "-f", "md_" + cfg.replace(".", "_")])
        raise Infra("TLC timed out on %s/%s" % (module, cfg))
    return rc, out, time.time() - t0


def write_cfg(path, base_lines, consts):
    with open(path, "w") as f:
        f.write("\n".join(base_lines) + "\nCONSTANTS\n")
        for k, v in consts.items():
            f.write("  %s = %s\n" % (k, v))


def tla_set(xs):
    return "{" + ", ".join('"%s"' % x if isinstance(x, str) else ("TRUE" if x else "FALSE") if isinstance(x, bool) else str(x) for x in xs) + "}"


def parse_hist_lines(out):
    hs = []
    for line in out.splitlines():
        if line.startswith('<<"HIST"'):
            s = line[line.index(', "') + 2:].rstrip()
            if s.endswith(">>"):
                s = s[:-2].rstrip()
            try:
                hs.append(json.loads(json.loads(s)))
            except Exception as ex:  # a truncated line is a generator problem, not a verdict
                raise Infra("cannot parse generated history: %s" % ex)
    return hs


def gen_histories(sd, consts, num, depth, sd_seed, module="MintGen.tla", name="gen"):
    """TLC simulation of the model: every behaviour is a history of abstract operations."""
    cfg = "%s_%d.cfg" % (name, sd_seed)
    write_cfg(os.path.join(sd, cfg), ["SPECIFICATION Spec", "CHECK_DEADLOCK FALSE"], consts)
    rc, out, dt = tlc(sd, module, cfg, ["-simulate", "num=%d" % num, "-depth", str(depth), "-seed", str(sd_seed)],
                      workers=1, timeout=600)
    hs = parse_hist_lines(out)
    if not hs:
        raise Infra("TLC generated no histories:\n" + out[-3000:])
    return hs, dt


def cover_keys(h):
    """Coverage keys of one generated history: for every operation the model's own expectation (the causes it finds, or none) and
    the request / state classes the generator recorded with it (field x), plus the input variants presented."""
    keys = set()
    cfgkey = ""
    for op in h:
        if op.get("op") == "cfg":
            lim = op.get("limits") or {}
            cfgkey = "fee%s/mpp%s/lim%s" % ("0" if not op.get("fee") else "+", op.get("mpp"), [bool(lim.get(k)) for k in sorted(lim)] if isinstance(lim, dict) else "")
            continue
        x = op.get("x") or {}
        variants = sorted({i.get("var", "") for i in op.get("ins", [])}) if "ins" in op else []
        def coarse(v):
            if isinstance(v, list):
                return [coarse(y) for y in v]
            if isinstance(v, int) and not isinstance(v, bool) and v > 2:
                return 2
            return v
        base = [op.get("op"), sorted(x.get("c", [])), coarse(x.get("v")), variants]
        keys.add(json.dumps(base, sort_keys=True))
        # the same class under another configuration is a class of its own only for refusals (limits, mpp, fees decide them)
        if x.get("c"):
            keys.add(json.dumps(base + [cfgkey], sort_keys=True))
    return keys


def select_covering(hs, num):
    """Greedy cover: from a large pool of generated behaviours keep those that add coverage keys (largest gain first), then fill
    up with the rest in generation order.  Deterministic for a given pool."""
    keyed = [(i, cover_keys(h)) for i, h in enumerate(hs)]
    allkeys = set().union(*[k for _, k in keyed]) if keyed else set()
    covered, chosen = set(), []
    remaining = dict(keyed)
    while remaining and len(chosen) < num:
        best = max(remaining, key=lambda i: (len(remaining[i] - covered), -i))
        if not remaining[best] - covered:
            break
        covered |= remaining.pop(best)
        chosen.append(best)
    for i, _ in keyed:
        if len(chosen) >= num:
            break
        if i in remaining:
            chosen.append(i)
            covered |= remaining.pop(i)
    return [hs[i] for i in chosen], {"pool": len(hs), "pool_keys": len(allkeys), "selected": len(chosen), "selected_keys": len(covered)}


def to_harness_histories(hs, start_id=1, defaults=None):
    res = []
    for i, h in enumerate(hs):
        cfg = dict(defaults or {})
        ops = []
        for op in h:
            if op.get("op") == "cfg":
                cfg.update({k: v for k, v in op.items() if k != "op"})
            else:
                ops.append({k: v for k, v in op.items() if k != "x"})
        lim = cfg.get("limits") or {}
        cfg["limits"] = {k: v for k, v in lim.items()} if isinstance(lim, dict) else {}
        rec = {"id": start_id + i, "fee": cfg.get("fee", 0), "mpp": bool(cfg.get("mpp", False)),
               "policy": cfg.get("policy", "pct1"), "limits": cfg.get("limits", {}), "probe": cfg.get("probe", "all"), "malformed": cfg.get("malformed", 0), "http": cfg.get("http", False),
               "ops": ops}
        res.append(rec)
    return res


def scratch_dir(d):
    """Mint/wallet data directories are transient: keep them on tmpfs when there is one (SQLite
    fsyncs dominate otherwise), else under the run directory."""
    if os.path.isdir("/dev/shm") and os.access("/dev/shm", os.W_OK):
        return os.path.join("/dev/shm", "verif-" + str(os.getpid()) + "-" + os.path.basename(d))
    return os.path.join(d, "scratch")


def run_hist(d, histories, sd_seed, name="hist", workers=12):
    build_harness()
    hin = os.path.join(d, name + ".json")
    tout = os.path.join(d, name + ".ndjson")
    with open(hin, "w") as f:
        json.dump(histories, f)
    scratch = scratch_dir(d)
    rc, out = run([os.path.join(BIN, "vharness"), "hist", "-in", hin, "-out", tout, "-scratch", scratch,
                   "-seed", str(sd_seed), "-workers", str(workers)], env=goenv(), timeout=3000)
    shutil.rmtree(scratch, ignore_errors=True)
    if rc != 0:
        raise Infra("harness driver failed (rc=%d):\n%s" % (rc, out[-3000:]))
    m = re.search(r"histories=(\d+) events=(\d+)", out)
    if not m or int(m.group(2)) == 0:
        raise Infra("harness produced no events:\n" + out[-2000:])
    return tout, int(m.group(1)), int(m.group(2))


def monitor(sd, trace, module="MintTrace.tla", cfg="MintTrace.cfg", name="mon", timeout=1800):
    tags = os.path.join(os.path.dirname(trace), name + "_tags.json")
    if os.path.exists(tags):
        os.remove(tags)
    rc, out, dt = tlc(sd, module, cfg, env={"VERIF_TRACE": trace, "VERIF_TAGS": tags}, workers=1, timeout=timeout)
    if rc != 0 or not os.path.exists(tags):
        raise Infra("TLC trace validation did not complete (rc=%d):\n%s" % (rc, out[-4000:]))
    with open(tags) as f:
        res = json.loads(f.readline())
    m = re.search(r"(\d+) states generated, (\d+) distinct states found", out)
    res["tlc_states"] = int(m.group(2)) if m else 0
    res["tlc_generated"] = int(m.group(1)) if m else 0
    res["wall_s"] = dt
    return res


# ---------------- known findings ----------------

def load_known():
    path = os.path.join(VERIF, "known_findings.jsonl")
    ks = []
    if os.path.exists(path):
        for line in open(path):
            line = line.strip()
            if line and not line.startswith("#"):
                ks.append(json.loads(line))
    return ks


def split_known(prop, keys):
    """keys: iterable of finding keys for property prop.  Returns (unknown, known_open_records)."""
    known = {k["key"]: k for k in load_known() if k.get("property") == prop and k.get("status") == "open"}
    unknown, hit = [], {}
    for k in keys:
        if k in known:
            hit[k] = known[k]
        else:
            unknown.append(k)
    return unknown, list(hit.values())


# ---------------- evidence / verdict ----------------

def write_evidence(prop, level, coverage, wall, violations, assumptions=()):
    if os.environ.get("VERIF_REPLAY"):
        return      # a replay re-runs one artefact: it does not describe what the check covers
    os.makedirs(os.path.join(VERIF, "evidence"), exist_ok=True)
    ev = {"property_id": prop, "tier": tier(), "seed": seed(), "level": level, "coverage": coverage,
          "assumptions": list(assumptions), "wall_s": round(wall, 2), "violations": violations}
    with open(os.path.join(VERIF, "evidence", prop + ".json"), "w") as f:
        json.dump(ev, f, indent=1)


def save_replay(prop, name, payload):
    d = os.path.join(OUT, "replays")
    os.makedirs(d, exist_ok=True)
    path = os.path.join(d, "%s-%s.json" % (prop, name))
    with open(path, "w") as f:
        json.dump(payload, f, indent=1)
    return path


def sha(s):
    return hashlib.sha256(s.encode()).hexdigest()[:12]
