"""C04: TLC enumerates ProofGate!Cases (valid proof x single-field mutation x endpoint x position);
each case becomes one request in a history on a real three-keyset mint; MintAPI judges it."""
import json
import os

import minthist
from core import rundir, seed, spec_copy, tier
from tables import tlc_assume

FEES = {"k0": 0, "k1": 100, "k2": 1000}


def split(v):
    out, b = [], 1
    while v > 0:
        if v & 1:
            out.append(b)
        v >>= 1
        b <<= 1
    return out or [1]


def build_history(hid, cases):
    """Funding on k0, rotate, k1, rotate, k2 (+ companions, spares); then one request per case."""
    nb = 0
    ops = []
    base = {}      # case index -> b id
    comp = {}      # case index -> [b ids]
    spare = {}     # (ks, amt) -> b id of another proof with the same keyset/amount ; ("other",) -> different amount
    fund = {"k0": [], "k1": [], "k2": []}
    for i, c in enumerate(cases):
        spec = {"amt": c["amt"]}
        if c["mut"] == "len512":
            spec["seclen"] = 512
        if c["mut"] == "len513":
            spec["seclen"] = 513
        if c["mut"] == "len512mb":
            spec["seclen"], spec["secmb"] = 512, True
        if c["mut"] == "len514mb":
            spec["seclen"], spec["secmb"] = 514, True
        if c["mut"] in ("p2pk512", "p2pk513"):
            spec["seclen"], spec["lock"] = int(c["mut"][4:]), "K1"
        fund[c["ks"]].append(("base", i, spec))
    for ks in ("k0", "k1", "k2"):
        for a in (1, 2, 64, 1024):
            fund[ks].append(("spare", (ks, a), {"amt": a}))
    for i, c in enumerate(cases):
        n = {"only": 0, "first": 1, "middle": 2, "last": 1}[c["pos"]]
        for _ in range(n):
            fund["k2"].append(("comp", i, {"amt": 2}))
    q = 0
    for ks in ("k0", "k1", "k2"):
        items = fund[ks]
        # chunks of 40 outputs per mint request
        for lo in range(0, len(items), 40):
            chunk = items[lo:lo + 40]
            total = sum(sp["amt"] for _, _, sp in chunk)
            q += 1
            ops += [{"op": "mintquote", "amt": total}, {"op": "settle", "q": "mq%d" % q},
                    {"op": "mint", "q": "mq%d" % q, "outs": [sp for _, _, sp in chunk]}]
            for kind, key, sp in chunk:
                nb += 1
                b = "b%d" % nb
                if kind == "base":
                    base[key] = b
                elif kind == "spare":
                    spare[key] = b
                else:
                    comp.setdefault(key, []).append(b)
        if ks != "k2":
            nxt = "k1" if ks == "k0" else "k2"
            ops.append({"op": "rotate", "fee": FEES[nxt]})
    lq = 0
    for i, c in enumerate(cases):
        mut = c["mut"]
        claimed_ks, claimed_amt = c["ks"], c["amt"]
        var = mut
        if mut in ("len512", "len513", "len512mb", "len514mb", "p2pk512", "p2pk513"):
            var = ""
        if mut == "c:other":
            var = "c:" + spare[(c["ks"], 2 if c["amt"] != 2 else 64)]
        if mut == "c:othersameamt":
            var = "c:" + spare[(c["ks"], c["amt"])]
        if mut.startswith("amt:"):
            claimed_amt = int(mut[4:])
        if mut.startswith("amtbig:"):
            claimed_amt = 0
        if mut.startswith("ks:"):
            claimed_ks = mut[3:]
        bad = {"p": base[i], "var": var}
        cs = [{"p": b, "var": ""} for b in comp.get(i, [])]
        ins = {"only": [bad], "first": [bad] + cs, "middle": cs[:1] + [bad] + cs[1:], "last": cs + [bad]}[c["pos"]]
        ppk = FEES.get(claimed_ks, 0) + 1000 * len(cs)
        fee = (ppk + 999) // 1000
        total = claimed_amt + 2 * len(cs) - fee
        if c["ep"] == "swap":
            outs = [{"amt": a} for a in split(total)] if total > 0 else [{"amt": 1}]
            nb += len(outs)
            ops.append({"op": "swap", "ins": ins, "outs": outs})
        else:
            lq += 1
            ops.append({"op": "meltquote", "kind": "ext", "amt": max(total, 1)})
            ops.append({"op": "melt", "q": "lq%d" % lq, "ins": ins})
    return {"id": hid, "fee": FEES["k0"], "policy": "zero", "probe": "none", "ops": ops}


def check(prop="C04"):
    d = rundir("%s_cases_%s" % (prop, tier()))
    sd = spec_copy(d)
    cases_f = os.path.join(d, "cases.ndjson")
    out, dt = tlc_assume(sd, "ProofGate.tla", {"VERIF_TIER": tier(), "VERIF_OUT": cases_f})
    cases = [json.loads(l) for l in open(cases_f)]
    # deterministic shuffle by seed so that a history mixes keysets and mutations
    import random
    rnd = random.Random(seed())
    rnd.shuffle(cases)
    per = 24
    histories = [build_history(k + 1, cases[lo:lo + per]) for k, lo in enumerate(range(0, len(cases), per))]
    muts = sorted({c["mut"] for c in cases})
    return minthist.check(prop, given=histories, level="model_checking",
                          rule="cases are the elements of ProofGate!Selected enumerated by TLC (thorough: the whole space); each is one "
                               "swap/melt request on a real mint with three keysets (two inactive), judged by MintAPI's InCauses through "
                               "MintTrace; distinct_nontrivial counts distinct (operation, request facts, accepted?) triples",
                          extra_cov={"proofgate_cases": len(cases), "mutations": muts, "exhaustive": True,
                                     "explanation": "the bounded mutation table is enumerated completely; concretisation (which bit is flipped, "
                                                    "which other proof's C) is one representative per class"})
