"""Wallet-world histories: TLC (WalletGen, simulation) generates histories over wallets, mints,
tokens and scripted Lightning outcomes; the harness replays them with real wallets talking to real
in-process mints through an interposed transport; TLC (WalletTrace) validates every recorded step
against Wallet.tla (invariants on the projection, per-operation conditions, per-request privacy and
counter conditions)."""
import json
import os
import re
import time

from core import (BIN, Infra, build_harness, goenv, parse_hist_lines, run, rundir, save_replay, scratch_dir, seed, spec_copy, split_known, tier, tla_set,
                  tlc, write_cfg, write_evidence)

ALL = ["sendhtlc", "mint", "send", "sendlocked", "receive", "melt", "checkmelt", "reclaim", "removespent", "mintswap", "rotate", "restore"]


def generate(sd, num, max_ops, profile, fees, two_mints=True, mint_amts=(5, 21, 64, 100, 333)):
    consts = {"Wallets": tla_set(["w1", "w2", "w3"]), "Mints": tla_set(["ma", "mb"] if two_mints else ["ma"]), "Fees": tla_set(fees),
              "MaxOps": max_ops, "Profile": tla_set(profile), "MintAmts": tla_set(mint_amts)}
    cfg = "wgen_%d.cfg" % seed()
    write_cfg(os.path.join(sd, cfg), ["SPECIFICATION Spec", "CHECK_DEADLOCK FALSE"], consts)
    rc, out, dt = tlc(sd, "WalletGen.tla", cfg, ["-simulate", "num=%d" % num, "-depth", str(max_ops + 4), "-seed", str(seed())], workers=1, timeout=900)
    hs = parse_hist_lines(out)
    if not hs:
        raise Infra("TLC generated no wallet histories:\n" + out[-2000:])
    res = []
    for i, h in enumerate(hs):
        cfgop = h[0]
        res.append({"id": i + 1, "mints": cfgop["mints"], "wallets": cfgop["wallets"], "ops": h[1:]})
    return res, dt, consts


def run_whist(d, histories, name="whist", workers=10, dleq=None):
    build_harness()
    hin = os.path.join(d, name + ".json")
    tout = os.path.join(d, name + ".ndjson")
    with open(hin, "w") as f:
        json.dump(histories, f)
    rc, out = run([os.path.join(BIN, "vharness"), "whist", "-in", hin, "-out", tout, "-scratch", scratch_dir(d) + "-w", "-seed", str(seed()),
                   "-workers", str(workers)] + (["-dleq", dleq] if dleq else []), env=goenv(), timeout=3400)
    if rc != 0:
        raise Infra("wallet driver failed (rc=%d):\n%s" % (rc, out[-3000:]))
    m = re.search(r"histories=(\d+) events=(\d+)", out)
    if not m or int(m.group(2)) == 0:
        raise Infra("wallet driver produced no events")
    return tout, int(m.group(1)), int(m.group(2))


def monitor(sd, trace, name="wmon"):
    tags = os.path.join(os.path.dirname(trace), name + "_tags.json")
    if os.path.exists(tags):
        os.remove(tags)
    rc, out, dt = tlc(sd, "WalletTrace.tla", "WalletTrace.cfg", env={"VERIF_TRACE": trace, "VERIF_TAGS": tags}, workers=1, timeout=2400, xmx="6g")
    if rc != 0 or not os.path.exists(tags):
        raise Infra("TLC wallet trace validation did not complete (rc=%d):\n%s" % (rc, out[-3000:]))
    res = json.loads(open(tags).readline())
    m = re.search(r"(\d+) states generated, (\d+) distinct states found", out)
    res["tlc_states"] = int(m.group(2)) if m else 0
    res["tlc_generated"] = int(m.group(1)) if m else 0
    res["wall_s"] = dt
    return res


def norm_reason(reason):
    # drop wallet / mint names, keep endpoint paths
    parts = reason.split(":")
    if len(parts) > 1 and (re.fullmatch(r"w\d+|m[ab]", parts[-1])):
        return ":".join(parts[:-1])
    return reason


def directed():
    """Histories for the situations the properties name explicitly and random generation reaches rarely:
    restore -> continue -> restore (C19), more than 200 / 300 outputs on one keyset (C19), a wallet holding proofs with and
    without DLEQ data (restored + newly minted) spending both (C08), remove-spent / reclaim around pending melts (C17)."""
    two = [{"name": "ma", "fee": 100, "policy": "min1"}, {"name": "mb", "fee": 0, "policy": "min1"}]
    ws = [{"name": "w1", "default": "ma"}, {"name": "w2", "default": "ma"}, {"name": "w3", "default": "mb"}]
    hs = []
    hs.append({"mints": two, "wallets": ws, "ops": [
        {"op": "mint", "w": "w1", "m": "ma", "amt": 64}, {"op": "restore", "w": "w1"}, {"op": "mint", "w": "w1", "m": "ma", "amt": 7},
        {"op": "sendlocked", "w": "w1", "m": "ma", "amt": 60, "to": "w2"}, {"op": "mint", "w": "w1", "m": "ma", "amt": 21},
        {"op": "melt", "w": "w1", "m": "ma", "amt": 20}, {"op": "send", "w": "w1", "m": "ma", "amt": 3, "fees": True},
        {"op": "restore", "w": "w1"}, {"op": "mint", "w": "w1", "m": "ma", "amt": 5}, {"op": "receive", "w": "w2", "tok": "t1"},
        {"op": "restore", "w": "w1"}, {"op": "restore", "w": "w2"}]})
    hs.append({"mints": two, "wallets": ws, "ops": [
        {"op": "mint", "w": "w2", "m": "ma", "amt": 100}, {"op": "melt", "w": "w2", "m": "ma", "amt": 20, "pay": ["pending"]},
        {"op": "removespent", "w": "w2"}, {"op": "reclaim", "w": "w2"}, {"op": "checkmelt", "w": "w2", "status": ["failed"]},
        {"op": "melt", "w": "w2", "m": "ma", "amt": 30, "pay": ["pending"]}, {"op": "removespent", "w": "w2"},
        {"op": "checkmelt", "w": "w2", "status": ["succeeded"]}, {"op": "send", "w": "w2", "m": "ma", "amt": 9},
        {"op": "removespent", "w": "w2"}, {"op": "reclaim", "w": "w2"}, {"op": "restore", "w": "w2"}]})
    # many outputs on one keyset: every mint of 255 makes 8 proofs; sends and receives add change outputs
    many = []
    for k in range(30):
        many.append({"op": "mint", "w": "w1", "m": "ma", "amt": 255})
        if k % 5 == 4:
            many.append({"op": "send", "w": "w1", "m": "ma", "amt": 37 + k, "fees": True})
    many += [{"op": "restore", "w": "w1"}, {"op": "mint", "w": "w1", "m": "ma", "amt": 255}, {"op": "send", "w": "w1", "m": "ma", "amt": 100},
             {"op": "restore", "w": "w1"}, {"op": "rotate", "m": "ma", "fee": 0}, {"op": "mint", "w": "w1", "m": "ma", "amt": 31},
             {"op": "restore", "w": "w1"}]
    hs.append({"mints": two[:1], "wallets": ws[:2], "ops": many})
    # tokens of every kind (plain, P2PK, P2PK with SIG_ALL; with and without fees) redeemed by a wallet whose default mint is another
    # one (swap to the trusted mint: swap / melt at the issuing mint, mint at the own one) and by one at the same mint
    for fee in (0, 100):
        ops = [{"op": "mint", "w": "w1", "m": "ma", "amt": 100}]
        kinds = [{"op": "send", "amt": 13}, {"op": "sendlocked", "amt": 9, "to": "w3"}, {"op": "sendlocked", "amt": 12, "to": "w3", "sigall": True},
                 {"op": "sendlocked", "amt": 7, "to": "w2", "sigall": True}, {"op": "send", "amt": 8, "fees": True}]
        for i, k in enumerate(kinds):
            ops.append(dict(k, w="w1", m="ma"))
        ops += [{"op": "receive", "w": "w3", "tok": "t1", "swap": True}, {"op": "receive", "w": "w3", "tok": "t2", "swap": True},
                {"op": "receive", "w": "w3", "tok": "t3", "swap": True}, {"op": "receive", "w": "w2", "tok": "t4"},
                {"op": "receive", "w": "w3", "tok": "t5", "swap": True}, {"op": "send", "w": "w3", "m": "mb", "amt": 5},
                {"op": "mintswap", "w": "w1", "from": "ma", "to": "mb", "amt": 10}]
        for trust in (None, []):
            # trust = []: ma is an untrusted mint for w3 (it is not in its list) until it receives from it without swapping
            wl = [dict(w, trust=trust) if (w["name"] == "w3" and trust is not None) else w for w in ws]
            hs.append({"mints": [{"name": "ma", "fee": fee, "policy": "min1"}, {"name": "mb", "fee": 0, "policy": "min1"}], "wallets": wl,
                       "ops": ops + ([{"op": "sendlocked", "w": "w1", "m": "ma", "amt": 6, "to": "w3", "sigall": True}, {"op": "receive", "w": "w3", "tok": "t7", "swap": True},
                                      {"op": "send", "w": "w1", "m": "ma", "amt": 4}, {"op": "receive", "w": "w3", "tok": "t8"},
                                      {"op": "sendlocked", "w": "w1", "m": "ma", "amt": 6, "to": "w3", "sigall": True}, {"op": "receive", "w": "w3", "tok": "t9", "swap": True},
                                      # too little left after the swap fee for the mint-to-mint part: the receive fails after the token is used up
                                      {"op": "sendlocked", "w": "w1", "m": "ma", "amt": 2, "to": "w2", "sigall": True}, {"op": "receive", "w": "w2", "tok": "t10", "swap": False},
                                      {"op": "sendlocked", "w": "w1", "m": "ma", "amt": 2, "to": "w3", "sigall": True}, {"op": "receive", "w": "w3", "tok": "t11", "swap": True},
                                      {"op": "reclaim", "w": "w3"}]
                                     if trust is not None else [])})
    # the same failing receive while the token's mint is not in the wallet's list
    hs.append({"mints": [{"name": "ma", "fee": 100, "policy": "min1"}, {"name": "mb", "fee": 0, "policy": "min1"}],
               "wallets": [ws[0], ws[1], dict(ws[2], trust=[])],
               "ops": [{"op": "mint", "w": "w1", "m": "ma", "amt": 64}, {"op": "sendlocked", "w": "w1", "m": "ma", "amt": 2, "to": "w3", "sigall": True},
                       {"op": "receive", "w": "w3", "tok": "t1", "swap": True}, {"op": "reclaim", "w": "w3"},
                       {"op": "sendlocked", "w": "w1", "m": "ma", "amt": 9, "to": "w3", "sigall": True}, {"op": "receive", "w": "w3", "tok": "t2", "swap": True}]})
    # hash-locked tokens (with and without a recipient key), redeemed, then more output-creating operations at the same mint
    for fee in (0, 100):
        ops = [{"op": "mint", "w": "w1", "m": "ma", "amt": 64}, {"op": "sendhtlc", "w": "w1", "m": "ma", "amt": 8}, {"op": "sendhtlc", "w": "w1", "m": "ma", "amt": 8, "to": "w2"},
               {"op": "sendhtlc", "w": "w1", "m": "ma", "amt": 1, "fees": True}, {"op": "sendhtlc", "w": "w1", "m": "ma", "amt": 13, "to": "w3", "fees": True},
               {"op": "receive", "w": "w2", "tok": "t1"}, {"op": "mint", "w": "w2", "m": "ma", "amt": 5}, {"op": "receive", "w": "w2", "tok": "t2"},
               {"op": "send", "w": "w2", "m": "ma", "amt": 3}, {"op": "receive", "w": "w3", "tok": "t3"}, {"op": "receive", "w": "w3", "tok": "t4"},
               {"op": "mint", "w": "w3", "m": "ma", "amt": 5}, {"op": "restore", "w": "w2"}, {"op": "restore", "w": "w3"}]
        hs.append({"mints": [{"name": "ma", "fee": fee, "policy": "min1"}, {"name": "mb", "fee": 0, "policy": "min1"}], "wallets": ws, "ops": ops})
    # mint-to-mint swaps (MintSwap, receive with swap to the trusted mint) whose Lightning payment fails, errs or stays in flight;
    # then reclaim / remove-spent and a restore
    for fee in (0, 100):
        for pay, status in ((["failed"], ["failed"]), (["pending"], []), (["error"], ["pending"]), (["error"], ["failed"])):
            ops = [{"op": "mint", "w": "w1", "m": "ma", "amt": 64}, {"op": "send", "w": "w1", "m": "ma", "amt": 12},
                   {"op": "sendlocked", "w": "w1", "m": "ma", "amt": 9, "to": "w3"},
                   {"op": "mintswap", "w": "w1", "from": "ma", "to": "mb", "amt": 10, "pay": pay, "status": status},
                   {"op": "receive", "w": "w3", "tok": "t1", "swap": True, "pay": pay, "status": status},
                   {"op": "receive", "w": "w3", "tok": "t2", "swap": True, "pay": pay, "status": status},
                   {"op": "reclaim", "w": "w1"}, {"op": "removespent", "w": "w1"},
                   {"op": "mintswap", "w": "w1", "from": "ma", "to": "mb", "amt": 5},
                   {"op": "receive", "w": "w3", "tok": "t1", "swap": True}, {"op": "receive", "w": "w3", "tok": "t2", "swap": True},
                   {"op": "restore", "w": "w1"}]
            hs.append({"mints": [{"name": "ma", "fee": fee, "policy": "min1"}, {"name": "mb", "fee": 0, "policy": "min1"}], "wallets": ws, "ops": ops})
    # a rotation that changes the fee while the wallet object stays loaded; right after it fee-inclusive sends that cannot be
    # served from the store (the small proofs were handed out before), and transactions whose inputs span both keysets
    for f1, f2 in ((0, 1000), (100, 1000), (1000, 100), (1000, 0), (100, 100), (100, 250)):
        ops = [{"op": "mint", "w": "w1", "m": "ma", "amt": 64}, {"op": "send", "w": "w1", "m": "ma", "amt": 1}, {"op": "send", "w": "w1", "m": "ma", "amt": 2},
               {"op": "rotate", "m": "ma", "fee": f2},
               {"op": "send", "w": "w1", "m": "ma", "amt": 5, "fees": True}, {"op": "receive", "w": "w2", "tok": "t3"},
               {"op": "send", "w": "w1", "m": "ma", "amt": 5, "fees": True}, {"op": "receive", "w": "w2", "tok": "t4"},
               {"op": "mint", "w": "w1", "m": "ma", "amt": 8}, {"op": "send", "w": "w1", "m": "ma", "amt": 45}, {"op": "receive", "w": "w2", "tok": "t5"},
               {"op": "send", "w": "w2", "m": "ma", "amt": 30, "fees": True}, {"op": "reclaim", "w": "w2"},
               {"op": "melt", "w": "w2", "m": "ma", "amt": 20}, {"op": "mintswap", "w": "w2", "from": "ma", "to": "mb", "amt": 10}]
        hs.append({"mints": [{"name": "ma", "fee": f1, "policy": "min1"}, two[1]], "wallets": ws[:2], "ops": ops})
    # a restored wallet at a fee-bearing mint that is not its default: sends with fees, mint swaps, melts
    for fee in (100, 1000):
        ops = [{"op": "mint", "w": "w3", "m": "ma", "amt": 64}, {"op": "mint", "w": "w3", "m": "mb", "amt": 16}, {"op": "restore", "w": "w3"},
               {"op": "send", "w": "w3", "m": "ma", "amt": 5, "fees": True}, {"op": "receive", "w": "w1", "tok": "t1"},
               {"op": "mintswap", "w": "w3", "from": "ma", "to": "mb", "amt": 10}, {"op": "melt", "w": "w3", "m": "ma", "amt": 7},
               {"op": "sendlocked", "w": "w3", "m": "ma", "amt": 6, "to": "w1", "fees": True}, {"op": "receive", "w": "w1", "tok": "t2"},
               {"op": "restore", "w": "w3"}]
        hs.append({"mints": [{"name": "ma", "fee": fee, "policy": "min1"}, {"name": "mb", "fee": 0, "policy": "min1"}], "wallets": ws, "ops": ops})
    # proofs on the old and on the new keyset after a rotation, spent together: sends around and above what the old keyset holds
    for fee in (0, 100):
        for old, new, amts in ((3, 12, (4, 2, 5)), (7, 9, (8, 3)), (5, 10, (6, 6)), (1, 14, (2, 9)), (15, 16, (16, 10))):
            ops = [{"op": "mint", "w": "w1", "m": "ma", "amt": old}, {"op": "rotate", "m": "ma", "fee": fee}, {"op": "mint", "w": "w1", "m": "ma", "amt": new}]
            for i, a in enumerate(amts):
                ops += [{"op": "send", "w": "w1", "m": "ma", "amt": a, "fees": i == 1}, {"op": "receive", "w": "w2", "tok": "t%d" % (i + 1)}]
            ops += [{"op": "melt", "w": "w1", "m": "ma", "amt": 2}, {"op": "restore", "w": "w1"}]
            hs.append({"mints": [{"name": "ma", "fee": fee, "policy": "min1"}, two[1]], "wallets": ws[:2], "ops": ops})
    return hs


def check(prop, profile=None, num=None, max_ops=18, fees=(0, 100, 1000), two_mints=True, given=None, level="model_checking", rule=None,
          extra_cov=None, mint_amts=(5, 21, 64, 100, 333), collect=False, with_directed=True, sub=""):
    t0 = time.time()
    d = rundir("%s%s_%s" % (prop, sub, tier()))
    sd = spec_copy(d)
    if num is None:
        num = 60 if tier() == "quick" else 1500
    if given is not None:
        histories, gen_dt, consts = given, 0.0, {}
    else:
        histories, gen_dt, consts = generate(sd, num, max_ops, profile or ALL, fees, two_mints, mint_amts)
        if with_directed:
            for h in directed():
                h = dict(h)
                h["id"] = len(histories) + 1
                histories.append(h)
    trace, nh, nev = run_whist(d, histories)
    res = monitor(sd, trace)
    if res["lines"] != nev:
        raise Infra("monitor consumed %d of %d events" % (res["lines"], nev))
    evs = {}
    for line in open(trace):
        e = json.loads(line)
        evs[(e["tr"], e["i"])] = e
    own, foreign = {}, {}
    for p, tr, i, reason in res["tags"]:
        e = evs[(tr, i)]
        key = "%s:%s" % (e["ev"], norm_reason(reason))
        (own if p == prop else foreign).setdefault((p, key), []).append((tr, i))
    unknown, known = split_known(prop, sorted({k for (_, k) in own}))
    for k in known:
        print("KNOWN-FINDING: property=%s %s (%s)" % (prop, k["key"], k.get("what", "")))
    byid = {h["id"]: h for h in histories}
    viol = []
    for key in unknown:
        tr, i = own[(prop, key)][0]
        e = evs[(tr, i)]
        path = save_replay(prop, "wh%d-%s" % (tr, re.sub(r"[^A-Za-z0-9]+", "_", key)[:60]),
                           {"property": prop, "kind": "wallethist", "key": key, "seed": seed(), "history": byid.get(tr), "first_at": {"trace": tr, "line": i},
                            "occurrences": len(own[(prop, key)]), "event": {"ev": e["ev"], "a": e["a"], "r": e["r"]}})
        print("VIOLATION property=%s replay=%s" % (prop, path))
        print("  finding: %s (%d occurrences)" % (key, len(own[(prop, key)])))
        viol.append(key)
    kinds, endpoints = {}, {}
    distinct = set()
    for e in evs.values():
        kinds[e["ev"]] = kinds.get(e["ev"], 0) + 1
        distinct.add(json.dumps([e["ev"], e["a"], e["r"].get("ok")], sort_keys=True))
        for r in e["reqs"]:
            k = "%s %s" % (r["method"], r["path"])
            endpoints[k] = endpoints.get(k, 0) + 1
    first = histories[0]["id"]
    cov = {"states": res["tlc_states"], "transitions": res["tlc_generated"], "traces_validated_against_impl": nh,
           "samples": [{"history": histories[0]["ops"][:10]},
                       {"recorded": [{"ev": e["ev"], "a": e["a"], "r": e["r"]} for k, e in sorted(evs.items()) if k[0] == first][:8]}],
           "evaluations": nev, "distinct_nontrivial": len(distinct),
           "rule": rule or ("histories are behaviours of WalletGen.tla generated by TLC -simulate (seeded), replayed with real wallets against real "
                            "in-process mints; every recorded operation (facts, reply, projection of all wallets / tokens / mints, facts about "
                            "every HTTP request it caused) is validated by TLC against Wallet.tla; distinct_nontrivial counts distinct "
                            "(operation, arguments, succeeded?) triples"),
           "events_by_kind": kinds, "operations_ok": res["stats"]["ok"], "operations_failed": res["stats"]["failed"],
           "http_requests_inspected": res["stats"]["requests"], "requests_by_endpoint": endpoints, "generator_constants": consts,
           "tlc_generate_s": round(gen_dt, 1), "tlc_validate_s": round(res["wall_s"], 1),
           "tags_of_other_properties": sorted({"%s %s" % (p, k) for (p, k) in foreign}),
           "known_findings_seen": [k["key"] for k in known], "exhaustive": False}
    if extra_cov:
        cov.update(extra_cov)
    if collect:
        return cov, len(viol)
    write_evidence(prop, level, cov, time.time() - t0, len(viol),
                   ["honest mints (the real mint code) and the Lightning model", "the harness's NUT-13 table (repository derivation, identification only) "
                    "recognises the wallets' deterministic outputs for counters below 160 per keyset"])
    return 1 if viol else 0


def check_send_cases(prop="C18"):
    """C18: TLC enumerates SendCases!Selected (wallet content x amount x includeFees x input_fee_ppk); each case is replayed with a
    real wallet whose content is injected as genuine proofs, and a real recipient; WalletTrace judges (SendStep, ReceiveStep)."""
    from tables import tlc_assume
    t0 = time.time()
    build_harness()
    d = rundir("%s_cases_%s" % (prop, tier()))
    sd = spec_copy(d)
    cases = os.path.join(d, "sendcases.ndjson")
    out, dt1 = tlc_assume(sd, "SendCases.tla", {"VERIF_TIER": tier(), "VERIF_OUT": cases, "VERIF_SEED": str(seed())}, timeout=1500)
    m = re.search(r'<<"CASES", (\d+), (\d+)>>', out)
    ncases = int(m.group(1)) if m else 0
    trace = os.path.join(d, "sendcases_trace.ndjson")
    rc, txt = run([os.path.join(BIN, "vharness"), "sendcases", "-in", cases, "-out", trace, "-scratch", scratch_dir(d) + "-sc", "-seed", str(seed()),
                   "-workers", "14"], env=goenv(), timeout=3400)
    if rc != 0:
        raise Infra("sendcases driver failed (rc=%d):\n%s" % (rc, txt[-3000:]))
    mm = re.search(r"histories=(\d+) events=(\d+) cases=(\d+)", txt)
    if not mm or int(mm.group(3)) != ncases:
        raise Infra("sendcases driver ran %s of %d cases" % (mm.group(3) if mm else "?", ncases))
    res = monitor(sd, trace, name="sendcases")
    if res["lines"] != int(mm.group(2)):
        raise Infra("monitor consumed %d of %s events" % (res["lines"], mm.group(2)))
    evs = {}
    for line in open(trace):
        e = json.loads(line)
        evs[(e["tr"], e["i"])] = e
    own, foreign = {}, set()
    for p, tr, i, reason in res["tags"]:
        e = evs[(tr, i)]
        key = "%s:%s" % (e["ev"], norm_reason(reason))
        if p == prop:
            own.setdefault(key, []).append((tr, i))
        else:
            foreign.add("%s %s" % (p, key))
    unknown, known = split_known(prop, sorted(own))
    for k in known:
        print("KNOWN-FINDING: property=%s %s (%s; %d cases)" % (prop, k["key"], k.get("what", ""), len(own[k["key"]])))
    viol = []
    for key in unknown:
        tr, i = own[key][0]
        e, inj = evs[(tr, i)], evs.get((tr, i - 1), {})
        path = save_replay(prop, "sendcase-" + re.sub(r"[^A-Za-z0-9]+", "_", key)[:60],
                           {"property": prop, "kind": "sendcases", "key": key, "cases": len(own[key]), "content": inj.get("a"), "send": e["a"], "reply": e["r"],
                            "fees_ppk": inj.get("post", {}).get("mints", {}).get("ma", {}).get("fees")})
        print("VIOLATION property=%s replay=%s" % (prop, path))
        print("  finding: %s (%d cases)" % (key, len(own[key])))
        viol.append(key)
    sends = [e for e in evs.values() if e["ev"] == "send"]
    cov = {"states": res["tlc_states"], "transitions": res["tlc_generated"], "traces_validated_against_impl": int(mm.group(1)),
           "samples": [{"content": evs[(k[0], k[1] - 1)]["a"], "send": e["a"], "reply": e["r"]} for k, e in list(sorted(evs.items()))[2:40] if e["ev"] == "send"][:3],
           "evaluations": ncases, "distinct_nontrivial": len({json.dumps([evs[(k[0], k[1] - 1)]["a"].get("act"), evs[(k[0], k[1] - 1)]["a"].get("old"), e["a"]["amt"],
                                                                         e["a"]["fees"], json.dumps(e["post"]["mints"]["ma"]["fees"], sort_keys=True)])
                                                              for k, e in evs.items() if e["ev"] == "send"}),
           "rule": "cases are SendCases!Selected enumerated by TLC (thorough: the whole bounded space: contents of up to 3 proofs over denominations "
                   "1..32 on the active keyset, optionally 1 more on an inactive one, every amount 1..balance, includeFees on/off, fee in "
                   "{0,100,250,500,1000,2000}); quick: the slice with hash = seed mod 23",
           "sends_succeeded": sum(1 for e in sends if e["r"]["ok"]), "sends_refused": sum(1 for e in sends if not e["r"]["ok"]),
           "receives": sum(1 for e in evs.values() if e["ev"] == "receive"), "exhaustive": tier() == "thorough",
           "tags_of_other_properties": sorted(foreign), "known_findings_seen": [k["key"] for k in known],
           "tlc_enumerate_s": round(dt1, 1), "tlc_validate_s": round(res["wall_s"], 1)}
    return cov, len(viol), time.time() - t0
