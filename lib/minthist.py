"""Sequential mint histories: TLC (MintGen, simulation mode) generates histories of abstract
operations, the harness replays them on the real mint and records facts / replies / projections,
TLC (MintTrace) validates every recorded step against MintAPI and evaluates every invariant."""
import json
import os
import time

from core import (Infra, gen_histories, select_covering, monitor, run_hist, rundir, save_replay, seed, spec_copy, split_known, tier,
                  tla_set, to_harness_histories, write_evidence)

ALL_ACTIONS = ["mintquote", "settle", "notify", "pollmint", "mint", "swap", "meltquote", "melt", "pollmelt",
               "checkstate", "rotate", "restart"]


NOLIMITS = "0"


def limits_set(cfgs):
    # (maxbal, maxmint, maxmelt) encoded as one integer: TLC configuration files cannot hold records
    return "{" + ", ".join(str(b * 10000 + m * 100 + l) for (b, m, l) in cfgs) + "}"


def consts(profile, max_ops=16, fees=(0, 100, 1000), amts=(1, 2, 3, 5, 8, 13), max_out=30, max_mq=4, max_lq=3, limits=None, mpp=(False,)):
    return {"Limits": limits_set(limits) if limits else "{%s}" % NOLIMITS, "Mpp": tla_set(list(mpp)), "MaxOut": max_out, "MaxMq": max_mq, "MaxLq": max_lq, "MaxOps": max_ops, "Amts": tla_set(amts),
            "Fees": tla_set(fees), "Sim": "TRUE", "Profile": tla_set(profile)}


def model_check(sd, max_ops=None):
    """Exhaustive TLC run of the bounded model (MintGen with Sim = FALSE, MintModel.cfg): the state invariants of MintAPI
    (NoDoubleSpend, NoInflation, IssueOncePerPayment, OneActiveKeyset, never pending-and-spent) and SpentForever in every
    reachable state of every history of up to max_ops honest or adversarial operations after the funded start.
    A violation here is a defect of the specification, not of the code: it is reported as an infrastructure error."""
    import re as _re
    from core import tlc as _tlc
    if max_ops is None:
        max_ops = 3 if tier() == "quick" else 5
    cfg = open(os.path.join(sd, "MintModel.cfg")).read()
    cfg = _re.sub(r"MaxOps = \d+", "MaxOps = %d" % max_ops, cfg)
    name = "MintModel_%d.cfg" % max_ops
    open(os.path.join(sd, name), "w").write(cfg)
    args = ["-coverage", "1"] if tier() == "thorough" else []
    rc, out, dt = _tlc(sd, "MintGen.tla", name, args, workers=8, timeout=3000, xmx="12g")
    m = _re.search(r"(\d+) states generated, (\d+) distinct states found", out)
    if rc != 0 or not m or "No error has been found" not in out:
        raise Infra("the bounded model violates its own invariants or TLC failed:\n" + out[-3000:])
    res = {"max_ops": max_ops, "states_generated": int(m.group(1)), "distinct_states": int(m.group(2)), "wall_s": round(dt, 1),
           "invariants": ["NoDoubleSpend", "NoInflation", "IssueOncePerPayment", "OneActiveKeyset", "NoBoth", "SpentForever"],
           "constants": "MaxOut=6 MaxMq=2 MaxLq=1 Amts={2,5} Fees={0,1000}, funded start 8+4(K1)+1", "exhaustive": True}
    if tier() == "thorough":
        never = _re.findall(r"<(\w+) line \d+, col \d+ to line \d+, col \d+ of module MintGen>: 0:0", out)
        res["actions_never_taken"] = sorted(set(never))
    return res


def load_events(trace):
    evs = {}
    with open(trace) as f:
        for line in f:
            e = json.loads(line)
            evs[(e["tr"], e["i"])] = e
    return evs


def finding_key(ev, reason):
    return "%s:%s" % (ev, reason)


def evaluate(prop, histories, trace, res, d, extra_samples=None):
    """Turn monitor tags into verdict lines.  Returns (violations, known, foreign, samples)."""
    evs = load_events(trace)
    own, foreign = {}, {}
    for t in res["tags"]:
        p, tr, i, reason = t
        e = evs.get((tr, i), {"ev": "?"})
        key = finding_key(e["ev"], reason)
        (own if p == prop else foreign).setdefault((p, key), []).append((tr, i))
    unknown, known = split_known(prop, [k for (_, k) in own])
    byid = {h["id"]: h for h in histories}
    viol_lines = []
    for key in unknown:
        tr, i = own[(prop, key)][0]
        lines = [evs[k] for k in sorted(evs) if k[0] == tr and k[1] <= i]
        path = save_replay(prop, "h%d-%s" % (tr, key.replace(":", "_").replace("/", "_")[:60]),
                           {"property": prop, "kind": "minthist", "key": key, "seed": seed(), "history": byid.get(tr),
                            "first_at": {"trace": tr, "line": i}, "occurrences": len(own[(prop, key)]),
                            "events": lines[-6:]})
        viol_lines.append((key, path))
    return viol_lines, known, foreign


def check(prop, profile=None, num=None, max_ops=16, fees=(0, 100, 1000), probe="all", policy="pct1", gen_overrides=None,
          extra_histories=None, level="model_checking", rule=None, assumptions=None, mpp=False, collect=False,
          given=None, extra_cov=None, malformed=0, http=False, limits=None, mpp_set=(False,), with_model=False, sub="", pool=5):
    t0 = time.time()
    d = rundir("%s%s_%s" % (prop, sub, tier()))
    sd = spec_copy(d)
    profile = profile or ALL_ACTIONS
    if num is None:
        num = 150 if tier() == "quick" else 3000
    c = consts(profile, max_ops=max_ops, fees=fees, limits=limits, mpp=mpp_set)
    if gen_overrides:
        c.update(gen_overrides)
    if given is not None:
        histories, gen_dt, selection = given, 0.0, None
    else:
        # a pool several times the size wanted, of which the behaviours that add coverage (operation x model's expected causes x
        # request / state class) are kept first
        hs, gen_dt = gen_histories(sd, c, num * pool, max_ops + 3, seed())
        hs, selection = select_covering(hs, num)
        histories = to_harness_histories(hs, defaults={"probe": probe, "policy": policy, "malformed": malformed, "http": http})
    if extra_histories:
        base = len(histories) + 1
        for k, h in enumerate(extra_histories):
            h = dict(h)
            h["id"] = base + k
            h.setdefault("probe", probe)
            h.setdefault("policy", policy)
            histories.append(h)
    trace, nh, nev = run_hist(d, histories, seed())
    res = monitor(sd, trace)
    if res["lines"] != nev or res["stats"]["events"] != nev:
        raise Infra("monitor consumed %s of %d events" % (res["stats"], nev))
    viols, known, foreign = evaluate(prop, histories, trace, res, d)
    for k in known:
        print("KNOWN-FINDING: property=%s %s (%s)" % (prop, k["key"], k.get("what", "")))
    for key, path in viols:
        print("VIOLATION property=%s replay=%s" % (prop, path))
        print("  finding: %s" % key)
    # coverage counters measured on this run
    evs = load_events(trace)
    kinds = {}
    distinct = set()
    for e in evs.values():
        kinds[e["ev"]] = kinds.get(e["ev"], 0) + 1
        if e["ev"] not in ("init", "restore", "balances", "keysets", "checkstate"):
            distinct.add(json.dumps([e["ev"], e["a"], e["r"].get("ok")], sort_keys=True))
    sample_tr = histories[0]["id"]
    sample = [{"ev": e["ev"], "a": e["a"], "r": e["r"]} for k, e in sorted(evs.items()) if k[0] == sample_tr][:8]
    cov = {
        "states": res["tlc_states"], "transitions": res["tlc_generated"],
        "traces_validated_against_impl": nh,
        "samples": [{"history": histories[0]["ops"][:10]}, {"recorded": sample}],
        "evaluations": nev, "distinct_nontrivial": len(distinct),
        "rule": rule or ("histories are behaviours of MintGen.tla generated by TLC -simulate (seeded); each is replayed on a fresh "
                         "real mint; every recorded step (request facts, reply, raw-store projection) is validated by TLC against "
                         "MintAPI (MintTrace.tla). distinct_nontrivial counts distinct (operation, request facts, accepted?) "
                         "triples of state-changing operations, queries excluded"),
        "events_by_kind": kinds, "accepted": res["stats"]["accepted"], "rejected": res["stats"]["rejected"],
        "generator_constants": c, "coverage_selection": selection, "tlc_generate_s": round(gen_dt, 2), "tlc_validate_s": round(res["wall_s"], 2),
        "tags_of_other_properties": sorted({"%s %s" % (p, k) for (p, k) in foreign}),
        "known_findings_seen": [k["key"] for k in known],
        "exhaustive": False,
    }
    if with_model:
        mc = model_check(sd)
        cov["bounded_model"] = mc
        cov["states"] += mc["distinct_states"]
        cov["transitions"] += mc["states_generated"]
    if extra_cov:
        cov.update(extra_cov)
    if collect:
        return cov, len(viols)
    write_evidence(prop, level, cov, time.time() - t0, len(viols), assumptions or [
        "SQLite gives per-call atomicity; the Lightning model stands in for LND/CLN",
        "harness registry/projection reports facts correctly (self-tested by corrupting recorded fields)"])
    return 1 if viols else 0
