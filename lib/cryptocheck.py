"""C10 / C11 (and the derivation clause of C09): reference evaluation.  The harness samples inputs
(edge classes + seeded random), calls the exported Go functions and logs (inputs, actual output);
TLC recomputes every line with Derive.tla / Bdhke.tla over ECPrim (JDK SHA-256/HMAC/BigInteger
through module overrides) and compares bit for bit.  C10 additionally model-checks the algebraic
identities exhaustively in toy groups (BdhkeToy.tla)."""
import json
import os
import re
import time

from core import BIN, Infra, build_harness, goenv, run, rundir, save_replay, seed, spec_copy, split_known, tier, tlc, write_evidence


def run_log(d, which, n):
    build_harness()
    log = os.path.join(d, which + ".ndjson")
    scratch = "/dev/shm/verif-crypto-%d-%s" % (os.getpid(), which) if os.path.isdir("/dev/shm") else os.path.join(d, "scratch")
    rc, txt = run([os.path.join(BIN, "vharness"), "cryptolog", "-which", which, "-n", str(n), "-seed", str(seed()), "-out", log,
                   "-scratch", scratch], env=goenv(), timeout=1500)
    if rc != 0:
        raise Infra("cryptolog failed (rc=%d):\n%s" % (rc, txt[-2000:]))
    return log


def evaluate(sd, log):
    res = log.replace(".ndjson", "_result.json")
    rc, out, dt = tlc(sd, "CryptoCheck.tla", "CryptoCheck.cfg", env={"VERIF_TRACE": log, "VERIF_TAGS": res, "JAVA_TOOL_OPTIONS": "-Dfile.encoding=UTF-8"},
                      workers=1, timeout=3000, xmx="4g")
    if rc != 0 or not os.path.exists(res):
        raise Infra("TLC reference evaluation failed (rc=%d):\n%s" % (rc, out[-3000:]))
    return json.loads(open(res).readline()), dt


def wallet_dleq(d, sd):
    """C10, wallet path: TLC-generated and directed wallet histories on real wallets and mints; the NUT-12 proof (e, s, r)
    of every proof a wallet stores (spendable or pending, after every operation) and of every proof in a token it hands
    out (as the recipient decodes it) is logged with the mint's published key and re-verified by TLC."""
    import wallethist
    num = 25 if tier() == "quick" else 600
    histories, gen_dt, consts = wallethist.generate(sd, num, 16, ["mint", "send", "sendlocked", "receive", "melt", "checkmelt", "reclaim", "removespent", "restore"],
                                                    (0, 100), True)
    for h in wallethist.directed()[:2] + pending_melt_histories():
        h = dict(h)
        h["id"] = len(histories) + 1
        histories.append(h)
    log = os.path.join(d, "walletdleq.ndjson")
    trace, nh, nev = wallethist.run_whist(d, histories, name="c10w", dleq=log)
    lines = [json.loads(l) for l in open(log)]
    missing = sum(1 for l in lines if l["out"] == "missing")
    lines = [l for l in lines if l["out"] != "missing"]
    with open(log, "w") as f:
        for l in lines:
            f.write(json.dumps(l) + "\n")
    if not lines:
        raise Infra("wallet histories produced no DLEQ facts")
    v, dt = evaluate(sd, log)
    if v["n"] != len(lines):
        raise Infra("TLC evaluated %d of %d wallet DLEQ lines" % (v["n"], len(lines)))
    return lines, v, {"wallet_histories": nh, "wallet_events": nev, "wallet_dleq_lines": len(lines), "wallet_token_lines": sum(1 for l in lines if l["class"] == "wallet-token"),
                      "wallet_lines_without_dleq": missing, "wallet_tlc_evaluate_s": round(dt, 1)}


def pending_melt_histories():
    """A melt whose payment stays in flight and then fails puts the inputs back from the wallet's pending store; they are
    then sent on unchanged (exact amounts, no swap in between), to a third party."""
    two = [{"name": "ma", "fee": 0, "policy": "min1"}, {"name": "mb", "fee": 100, "policy": "min1"}]
    ws = [{"name": "w1", "default": "ma"}, {"name": "w2", "default": "ma"}, {"name": "w3", "default": "mb"}]
    hs = []
    for m, amt, melt, sends in (("ma", 31, 20, (16, 4, 8)), ("mb", 127, 60, (64, 32, 16)), ("ma", 15, 9, (8, 1, 4, 2))):
        ops = [{"op": "mint", "w": "w1", "m": m, "amt": amt}, {"op": "mint", "w": "w2", "m": m, "amt": 7},
               {"op": "melt", "w": "w1", "m": m, "amt": melt, "pay": ["pending"]},
               {"op": "melt", "w": "w2", "m": m, "amt": 3, "pay": ["pending"]},
               {"op": "checkmelt", "w": "w1", "status": ["pending"]}, {"op": "checkmelt", "w": "w1", "status": ["failed"]},
               {"op": "checkmelt", "w": "w2", "status": ["failed"]}]
        for a in sends:
            ops.append({"op": "send", "w": "w1", "m": m, "amt": a})
        ops += [{"op": "receive", "w": "w3", "tok": "t1"}, {"op": "receive", "w": "w2", "tok": "t2"}, {"op": "send", "w": "w2", "m": m, "amt": 4}]
        hs.append({"mints": two, "wallets": ws, "ops": ops})
    return hs


def check(prop, which, fns=None):
    t0 = time.time()
    d = rundir("%s_%s" % (prop, tier()))
    sd = spec_copy(d)
    n = 160 if tier() == "quick" else 4000
    log = run_log(d, which, n)
    lines = [json.loads(l) for l in open(log)]
    if fns:
        lines = [l for l in lines if l["fn"] in fns]
        with open(log, "w") as f:
            for l in lines:
                f.write(json.dumps(l) + "\n")
    v, dt = evaluate(sd, log)
    if v["n"] != len(lines):
        raise Infra("TLC evaluated %d of %d lines" % (v["n"], len(lines)))
    toy = None
    if which == "bdhke":
        rc, out, tdt = tlc(sd, "BdhkeToy.tla", "BdhkeToy.cfg", workers=1, timeout=900)
        if rc != 0 or '"TOY"' not in out:
            print("VIOLATION property=%s replay=%s" % (prop, save_replay(prop, "toy-identities", {"property": prop, "kind": "toy", "tlc": out[-2000:]})))
            print("  finding: toy-group identities do not hold")
            write_evidence(prop, "other", {"explanation": "toy identities failed", "evaluations": 1, "distinct_nontrivial": 2}, time.time() - t0, 1)
            return 1
        toy = round(tdt, 1)
    groups = {}
    for k, i in enumerate(v["bad"]):
        l = lines[i - 1]
        key = "%s|%s" % (l["fn"], "tampered:" + l["tampered"] if "tampered" in l else ("want=" + l["want"] if "want" in l and l["want"] != l["out"] else "differs-from-reference"))
        groups.setdefault(key, []).append((l, v["expected"][k]))
    wcov = {}
    if which == "bdhke":
        wl, wv, wcov = wallet_dleq(d, sd)
        for k, i in enumerate(wv["bad"]):
            l = wl[i - 1]
            key = "%s|%s|%s" % (l["fn"], l["class"].split(":")[0], "rejected-by-third-party" if l["out"] != "true" else "differs-from-reference")
            groups.setdefault(key, []).append((l, wv["expected"][k]))
        lines = lines + wl
    unknown, known = split_known(prop, sorted(groups))
    for k in known:
        print("KNOWN-FINDING: property=%s %s (%s)" % (prop, k["key"], k.get("what", "")))
    viol = []
    for key in unknown:
        l, exp = groups[key][0]
        path = save_replay(prop, re.sub(r"[^A-Za-z0-9]+", "_", key)[:70], {"property": prop, "kind": "crypto", "key": key, "line": l,
                                                                             "reference_value": exp, "count": len(groups[key])})
        print("VIOLATION property=%s replay=%s" % (prop, path))
        print("  finding: %s (%d lines) e.g. implementation=%s reference=%s" % (key, len(groups[key]), str(l["out"])[:70], str(exp)[:70]))
        viol.append(key)
    distinct = len({json.dumps(l, sort_keys=True) for l in lines})
    cov = {"explanation": "spec-as-reference differential: %d logged calls of the implementation recomputed by TLC from the TLA+ definitions "
                          "(Derive/Bdhke over ECPrim: JDK primitives, no shared code with the Go libraries); inputs are edge classes plus "
                          "seeded random samples, not exhaustive" % len(lines) +
                          ("; the algebraic identities are model-checked for all values in toy groups Z_q, q in {5,7,11,13}" if toy is not None else ""),
           "evaluations": len(lines), "distinct_nontrivial": distinct, "samples": lines[:2] + lines[-2:],
           "rule": "one evaluation per logged call; distinct = distinct (function, inputs) lines", "by_function": v["byfn"],
           "mismatches": len(groups) and sum(len(g) for g in groups.values()), "wallet_path": wcov, "tlc_evaluate_s": round(dt, 1), "toy_group_check_s": toy,
           "known_findings_seen": [k["key"] for k in known]}
    write_evidence(prop, "other", cov, time.time() - t0, len(viol),
                   ["JDK MessageDigest/Mac/BigInteger and ~100 lines of curve arithmetic in ECPrim.java (self-tested against FIPS/RFC/SEC2 "
                    "constants and the NUT-00, BIP32, NUT-13 vectors as ASSUMEs)", "cryptographic hardness is assumed"])
    return 1 if viol else 0


def keyset_derivation(prop):
    """C09: the ids and public keys a real mint publishes after rotations and restarts equal the BIP32 / NUT-02
    derivation from its stored seed and derivation indices, recomputed by TLC.  Returns (coverage, violations)."""
    d = rundir("%s_derive_%s" % (prop, tier()))
    sd = spec_copy(d)
    log = run_log(d, "derive", 8)
    lines = [l for l in (json.loads(x) for x in open(log)) if l["fn"] in ("MintKeysetId", "MintPubKey")]
    with open(log, "w") as f:
        for l in lines:
            f.write(json.dumps(l) + "\n")
    v, dt = evaluate(sd, log)
    if v["n"] != len(lines) or not lines:
        raise Infra("TLC evaluated %d of %d keyset lines" % (v["n"], len(lines)))
    viol = 0
    if v["bad"]:
        l = lines[v["bad"][0] - 1]
        path = save_replay(prop, "keyset-derivation", {"property": prop, "kind": "crypto", "line": l, "reference_value": v["expected"][0]})
        print("VIOLATION property=%s replay=%s" % (prop, path))
        print("  finding: %s|differs-from-reference (%d lines)" % (l["fn"], len(v["bad"])))
        viol = 1
    return {"keyset_derivation_lines": len(lines), "keyset_derivation_mismatches": len(v["bad"]), "keyset_derivation_sample": lines[0]}, viol
