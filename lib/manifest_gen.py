#!/usr/bin/env python3
"""Regenerates MANIFEST.json from the table below (single source of truth for the interface)."""
import json
import os
import subprocess

VERIF = os.path.dirname(os.path.dirname(os.path.abspath(__file__)))

TRUST = ("Trusts SQLite per-call atomicity, the Lightning model (stands in for LND/CLN), the harness registry/projection "
         "(facts only, self-tested) and TLC. Real-code coverage is what the recorded traces contain; the exhaustive part is the "
         "bounded model.")
SEQ = ("TLC generates histories as behaviours of MintGen.tla (simulation, seeded); each is replayed on a fresh real mint; every "
       "recorded step (request facts, actual reply, raw-store projection) is validated by TLC against MintAPI (MintTrace.tla): "
       "verdict vs Causes, allowed post-states, and every state invariant in every state. ")

L2 = (" Layer 2 (MintSteps.tla: one action per storage / Lightning call, the two mutexes, the in-progress guard) is model-checked exhaustively by TLC over all interleavings of 2-5 requests (thorough: 7) with every Lightning outcome (23 scenarios that must hold incl. the truth of the state-check reply, 7 defective variants - earlier states of the repository and seeded changes - that must be rejected), and every call sequence the explorer records on the real mint is validated against it by TLC (MintStepsTrace.tla; a corrupted sequence must be rejected in the same run); a MintSteps counterexample is replayed on the real mint as a fixed schedule (late Lightning answers are a scheduling point) before anything is reported. C01 also replays behaviours of MintSteps drawn by TLC -simulate (four and five concurrent requests) on the real mint; where a recorded call sequence leaves the model, the completions of that schedule are enumerated (drift-directed exploration).")

CHECKS = {
    "C01": dict(
        category="model_checking", design_ref="§5 C01",
        technique="TLA+ MintAPI + TLC: generated histories replayed, traces validated; all interleavings of concurrent requests on the real mint validated by a TLC linearizability search; TLA+ MintSteps (call-level model) checked exhaustively by TLC and bound by call-sequence trace validation",
        text=SEQ + "Concurrency: for 13 (thorough 16) scenarios of 2-3 requests on one secret the harness enumerates every "
             "Mazurkiewicz-inequivalent interleaving at storage/LN-call granularity on the real mint (sleep sets, complete), and TLC "
             "(MintAccept.tla) searches a linearization of each execution; none found = double spend. A directed matrix re-presents the "
             "consumed secrets after every way a melt ends PAID and after a swap (state check, swap, other melt quote, changed "
             "witness / DLEQ / amount), before and after a restart." + L2,
        note=TRUST),
    "C02": dict(
        category="model_checking", design_ref="§5 C02",
        technique="TLA+ MintAPI value ledger (msat) + TLC trace validation against a fee-charging Lightning model",
        text=SEQ + "The NoInflation invariant ((outstanding + owed) * 1000 + lnOut <= lnIn) and the guard feeLimit <= feeReserve are "
             "evaluated by TLC after every real step, with fees in {0,1,100,999,1000,2500} ppk and a backend that charges the whole limit. "
             "Request classes include NUT-15 partial payments, outside invoices that are not whole sats, internal settlement, forged invoices "
             "carrying an own payment hash, and follow-ups of every quote request the model refuses (ghost ids); directed matrices cover own "
             "invoices x quote state and msat classes with exact inputs; MintGen is also model-checked exhaustively (MintModel.cfg).",
        note=TRUST),
    "C03": dict(
        category="model_checking", design_ref="§5 C03",
        technique="TLA+ MintAPI mint-quote machine + TLC: generated histories, and all interleavings of mint/poll/notification on the real mint validated by linearizability search; TLA+ MintSteps (call-level model) checked exhaustively by TLC and bound by call-sequence trace validation",
        text=SEQ + "Concurrency: every interleaving of up to three mint requests with different outputs, a quote poll and the "
             "(gated) invoice notification goroutine is executed on the real mint and validated by TLC (MintAccept.tla); "
             "IssueOncePerPayment in every state; NUT-20 signature classes from the generator." + L2,
        note=TRUST),
    "C05": dict(
        category="fault_enumeration", design_ref="§5 C05",
        technique="TLA+ C05Scripts.tla enumerated by TLC (every Lightning answer script x resolution path), replayed on the real mint, judged by MintAPI's C05 table through TLC trace validation",
        text="The fault space the property names is enumerated completely (3334 scripts: pay answer x status sequences of length <= 3 x poll/state-check "
             "for every later lookup); each is a history on the real mint with a scripted backend; after every step TLC checks the allowed "
             "(quote state, input state) pairs of the C05 table, the melt / poll replies, that locked inputs are unusable and released ones usable.",
        note="Scripts longer than 4 answers are not covered; the Lightning model stands in for LND/CLN."),
    "C06": dict(
        category="exploration", design_ref="§5 C06",
        technique="TLA+ MintAPI frame condition (reject => unchanged) checked by TLC on traces of adversarial histories",
        text=SEQ + "Every refused request must leave the raw-store projection unchanged (up to the effective quote state) and a panic "
             "is an event no action accepts.",
        note=TRUST),
    "C07": dict(
        category="fault_enumeration", design_ref="§5 C07",
        technique="crash/error enumeration at every storage/LN call on the real mint, post-crash traces validated by TLC against MintAPI + CrashOutcomes; crash windows of TLA+ MintSteps (exhaustive TLC run) compared with the observed ones",
        text="For 16 victim operations (swap, mint, melt with each Lightning outcome incl. internal settlement, pending-melt "
             "resolution by poll and state check, rotation at run time and at start-up) the call sequence is measured and, for every "
             "k, the process is killed before call k (goroutine frozen, store closed, mint reloaded from the same directory) and, "
             "separately, call k fails; an adversarial follow-up runs on the restarted mint. TLC validates: post-crash state is "
             "all-or-nothing per phase, every follow-up step conforms to MintAPI, no inflation. The space is enumerated completely. "
             "MintSteps.tla with a crash between any two calls is model-checked exhaustively; the windows it reports as damaging are compared, per "
             "kind of request and call, with those observed on the real mint, and the victims' call sequences are validated against it.",
        note="A crash is modelled between calls, not inside one (SQLite atomicity/durability trusted); the Lightning backend survives."),
    "C09": dict(
        category="model_checking", design_ref="§5 C09",
        technique="TLA+ MintAPI keyset component + TLC trace validation over rotation/restart histories",
        text=SEQ + "Histories interleave restarts, start-up and run-time rotations with fees {0,100,1000,2500} and traffic on old and "
             "new keysets; keyset listings are operations of the history checked against the spec state; fees are charged per input keyset.",
        note=TRUST),
    "C15": dict(
        category="model_checking", design_ref="§5 C15",
        technique="TLA+ MintAPI StateCheckTruth/RestoreTruth evaluated by TLC after every step of every history",
        text=SEQ + "After every state-changing step a state check over all known/unknown/repeated/malformed Ys and a restore over all "
             "known/unknown/repeated B_s are issued; TLC compares the replies (order, state, witness, amount, keyset, C_/DLEQ tag) with the spec state.",
        note=TRUST),
    "C16": dict(
        category="model_checking", design_ref="§5 C16",
        technique="TLA+ MintAPI balances/limits + TLC trace validation",
        text=SEQ + "Issued/redeemed per keyset, balance and info.disabled are queried after every step and compared by TLC with sums over the spec state.",
        note=TRUST),
    "C04": dict(
        category="model_checking", design_ref="§5 C04",
        technique="TLA+ case space ProofGate.tla enumerated by TLC, each case replayed on a real three-keyset mint and judged by MintAPI (TLC trace validation)",
        text="TLC enumerates (keyset x amount x single-field mutation x endpoint x position) - quick: a slice of 600, thorough: all 2400 cases; "
             "each is one swap/melt request with a mint-signed proof mutated in exactly one field (real BDHKE by the harness); MintAPI's "
             "InCauses decides genuine/forged from provenance facts and TLC compares with the real verdict; honest variants must be accepted.",
        note=TRUST + " One representative concretisation per mutation class."),
    "C08": dict(
        category="model_checking", design_ref="§5 C08",
        technique="TLA+ Wallet.tla per-request conditions (ReqTags) checked by TLC on recorded traces of every wallet flow",
        text="TLC-generated wallet histories (mint, send with/without swap, P2PK send/receive, receive of tokens with DLEQ, melt with NUT-08 blank "
             "outputs, reclaim, mint-to-mint swap, restore) are replayed with real wallets; the interposed transport scans every request body "
             "(raw bytes and decoded JSON) for every blinding factor known to the harness (stored proofs, NUT-13 table) and for output secrets; "
             "TLC validates the per-request facts. Coverage = every request of every flow executed, listed per endpoint in the evidence.",
        note="The harness's table recognises deterministic outputs for counters below 160 per keyset; random (locked) outputs' blinding factors are "
             "known only once stored in a proof."),
    "C10": dict(
        category="other", design_ref="§5 C10",
        technique="TLA+ Bdhke.tla over ECPrim (Java module overrides) evaluated by TLC as reference on logged Go results; BdhkeToy.tla model-checked exhaustively",
        text="Spec-as-reference differential: Blind/Sign/Unblind/Verify/HashE/DLEQ of the Go code on edge + sampled inputs, every DLEQ a real mint "
             "emits, stores and returns after restart, wallet-style (e,s,r) proofs and a single-field tamper table are recomputed by TLC from "
             "the TLA+ definitions; the algebraic identities are checked for all values in toy groups Z_q. Wallet path: in TLC-generated and "
             "directed wallet histories (incl. melts that stay pending and then fail) the (e,s,r) of every proof a real wallet stores after every "
             "operation and of every proof in a token it hands out (as decoded by the recipient) is re-verified by TLC under the mint's published key.",
        note="Inputs sampled, not exhaustive; ECPrim.java (JDK SHA-256/HMAC/BigInteger + ~100 lines of curve arithmetic) is trusted, self-tested against published vectors."),
    "C11": dict(
        category="other", design_ref="§5 C11",
        technique="TLA+ Derive.tla (hash_to_curve, keyset id, BIP32, NUT-13) over ECPrim evaluated by TLC on every logged Go output",
        text="Spec-as-reference differential written from NUT-00/02/13 and BIP32 only: messages incl. several counter iterations, arbitrary key sets, "
             "real mint keysets, (seed, keyset id, counter) triples incl. ids with high bits and counters up to 2^31-1; compared bit for bit.",
        note="Inputs sampled (seeded) plus edge classes; ECPrim.java trusted as above; the NUT-00/BIP32/NUT-13 vectors are ASSUMEs of the spec."),
    "C12": dict(
        category="model_checking", design_ref="§5 C12",
        technique="TLA+ decision spec Locks.tla: TLC enumerates the case table and computes the verdict region; cases concretised on nut11 and the real mint; TLC validates",
        text="Finite table enumerated completely (quick: 23k cases with curated witnesses, thorough: all witnesses up to length 3): lock config x witness "
             "x position x output-signature class, with MustAccept / MustReject / DontCare regions; concretised with real Schnorr keys through "
             "nut11.VerifyP2PKLockedProof and Mint.Swap / MeltTokens on mint-signed proofs.",
        note="btcec Schnorr is trusted to build witnesses; lock times are +-hours around now."),
    "C13": dict(
        category="model_checking", design_ref="§5 C13",
        technique="TLA+ decision spec Locks.tla (HTLC part), same machinery incl. helper-produced witnesses",
        text="HTLC table (hash form x preimage class x n_sigs x pubkeys x locktime x refund x sigflag x witness) enumerated by TLC, concretised through "
             "nut14.VerifyHTLCProof and the real mint, incl. AddWitnessHTLC / AddWitnessHTLCToOutputs witnesses.",
        note="as C12"),
    "C14": dict(
        category="exploration", design_ref="§5 C14",
        technique="TLA+ Token.tla (codec law + decoder input classes) enumerated by TLC, concretised on the real codecs, validated by TLC",
        text="Round-trip shapes (sizes 0..40, 1..4 keysets, secret classes, witness, DLEQ none/partial/complete, amounts incl. 2^63, non-hex C/id, V3/V4, "
             "includeDLEQ) with the law roundtrip / fail / dontcare; decoder classes concretised into tens of thousands of strings (every truncation "
             "and byte mutation of valid tokens, lengths 0..8, hand-built JSON/CBOR, random base64).",
        note="The string space is covered by classes, not by all strings."),
    "C17": dict(
        category="model_checking", design_ref="§5 C17",
        technique="TLA+ Wallet.tla invariants and step conditions checked by TLC on traces of TLC-generated wallet histories replayed with real wallets and mints",
        text="Histories over 3 wallets, 2 mints, fees {0,100,1000}: mint, send +-fees, P2PK send, receive same-mint / swap-to-trusted, melt with success / "
             "failure / pending-then-resolved, reclaim, remove-spent, mint-swap, rotation, restore. After every operation TLC checks on the "
             "projection: balance = spendable = unspent at mint, pending exact, no proof twice, and per mint: mint balance = live holdings "
             "(no value lost, none conjured).",
        note="Honest mints (real code) + Lightning model; projection through the wallet store and the mint store."),
    "C18": dict(
        category="model_checking", design_ref="§5 C18",
        technique="TLA+ SendCases.tla enumerated by TLC (wallet content x amount x fee x includeFees), replayed with real wallets; Wallet!SendStep/ReceiveStep checked by TLC",
        text="quick: a seeded 1/23 slice (~3.9k sends), thorough: the whole bounded space (~90k sends): contents of up to 3 proofs over 1..32 on the active "
             "keyset plus optionally one on an inactive keyset, every amount, fees {0,100,250,500,1000,2000}; a real recipient redeems. Checked: "
             "exact value (+ fee of those very proofs), distinct, unspent, removed from spendable, recipient nets, and liveness within balance - fees.",
        note="Wallet content injected into the wallet store as genuine proofs (hook); SentFee in Wallet.tla defines the fee of a fee-inclusive send."),
    "C19": dict(
        category="model_checking", design_ref="§5 C19",
        technique="TLA+ Wallet.tla counter discipline (per-request) and RestoreStep checked by TLC on recorded wallet histories incl. a wallet process killed at every storage write / HTTP call; Counter.tla (counter and restore protocol with kills) model-checked exhaustively",
        text="The transport maps every submitted B_ to its (wallet, keyset, counter); TLC checks that no signed counter is submitted again, that the "
             "stored counter is past every signed one after every operation, and that a restore (also of a restored wallet) recovers exactly "
             "the live deterministic outputs of the seed. Crash clause: for mint / send / receive / melt / check-melt / swap-to-trusted the wallet "
             "process is frozen before each of its storage writes, HTTP requests and HTTP replies (every k), restored from the mnemonic into an "
             "empty directory, continued and restored again; the restored value is compared with the mint-side value of the seed's signed, "
             "unspent outputs. Counter.tla proves the protocol (and rejects three defective variants) for all schedules within small constants.",
        note="Directed histories cover > 300 outputs on one keyset and restore-continue-restore; bbolt's own crash atomicity is assumed."),
    "C20": dict(
        category="model_checking", design_ref="§5 C20",
        technique="TLA+ Http.tla (status/shape/error-code table driven by MintAPI's causes, NUT-19 cache) checked by TLC on traces driven through the real handler with hand-built JSON",
        text="MintAPI histories run entirely through the HTTP handler with JSON built by hand; TLC checks status <=> decision, 400 bodies exactly "
             "{detail, code} with a code naming a cause that actually holds, NUT shapes of 200 bodies (hand-written predicate), keys/info shapes "
             "after rotations, identical replays served from cache without storage calls, near-replays never; plus malformed requests. Fault "
             "clause: every victim operation is driven through the handler while its k-th storage / Lightning call fails (every k); the refusal "
             "must keep the {detail, code} body and must not carry the text of the failing call's error (the injected errors carry a marker).",
        note=TRUST),
}

NOT_YET = {
}


def main():
    props = [json.loads(l) for l in open(os.path.join(VERIF, "properties.jsonl"))]
    hooks = subprocess.run(["git", "-C", "/repo", "log", "--format=%H %s"], capture_output=True, text=True).stdout.splitlines()
    hook_commits = [l.split()[0] for l in hooks if "build-tagged" in l or l.split(" ", 1)[1].startswith("verif:")]
    checks, na = [], []
    for p in props:
        pid = p["id"]
        if pid in CHECKS:
            c = CHECKS[pid]
            checks.append({
                "property_id": pid,
                "quick_cmd": "./check %s" % pid,
                "thorough_cmd": "VERIF_TIER=thorough ./check %s" % pid,
                "evidence_file": "/verif/evidence/%s.json" % pid,
                "replay_cmd_template": "./check %s --replay {path}" % pid,
                "engine": c.get("engine", "tlc+vharness"),
                "level_claimed": {"category": c["category"], "text": c["text"], "design_ref": c["design_ref"]},
                "level_note": c["note"],
                "technique": c["technique"],
            })
        else:
            na.append({"property_id": pid, "reason": NOT_YET.get(pid, "check not built yet in this round (see DESIGN.md §5 for the plan)")})
    m = {
        "version": 1,
        "setup_cmd": "./setup.sh",
        "hooks": {
            "guard": "verif",
            "enable": "go build -tags verif (harness module with replace github.com/elnosh/gonuts => /repo)",
            "baseline_off_cmd": "cd /repo && GOFLAGS=-mod=mod GOPROXY=off go test -vet=off -count=1 ./...",
            "source_commits": hook_commits,
            "add_only": True,
        },
        "engines": [
            {"name": "tlc+vharness", "path": "/verif/check", "serves_properties": sorted(CHECKS),
             "kind_free_text": "TLA+ specifications under /verif/spec checked with TLC; Go harness (/verif/harness) replays "
                               "TLC-generated behaviours on the real code and records traces that TLC validates"},
        ],
        "checks": checks,
        "not_applicable": na,
        "notes": "exit 0 held / 1 violation / 2 infrastructure. Known findings in /verif/known_findings.jsonl.",
    }
    with open(os.path.join(VERIF, "MANIFEST.json"), "w") as f:
        json.dump(m, f, indent=1)


if __name__ == "__main__":
    main()
