#!/usr/bin/env python3
"""Regenerates MANIFEST.json from the table below (single source of truth for the interface)."""
import json
import os
import subprocess

VERIF = os.path.dirname(os.path.dirname(os.path.abspath(__file__)))

TRUST = ("Trusts SQLite per-call atomicity, the Lightning model (stands in for LND/CLN), the harness registry/projection "
         "(facts only, self-tested) and TLC. Real-code coverage is what the recorded traces contain; the exhaustive part is the "
         "bounded model.")
SEQ = ("TLC generates histories as behaviours of MintGen.tla (simulation, seeded); each is replayed on a fresh real mint; every "
       "recorded step (request facts, actual reply, raw-store projection) is validated by TLC against MintAPI (MintTrace.tla): "
       "verdict vs Causes, allowed post-states, and every state invariant in every state. ")

CHECKS = {
    "C01": dict(
        category="model_checking", design_ref="§5 C01",
        technique="TLA+ MintAPI + TLC: generated histories replayed, traces validated; all interleavings of concurrent requests validated by a TLC linearizability search",
        text=SEQ + "Concurrency: for 13 (thorough 16) scenarios of 2-3 requests on one secret the harness enumerates every "
             "Mazurkiewicz-inequivalent interleaving at storage/LN-call granularity on the real mint (sleep sets, complete), and TLC "
             "(MintAccept.tla) searches a linearization of each execution; none found = double spend.",
        note=TRUST),
    "C02": dict(
        category="model_checking", design_ref="§5 C02",
        technique="TLA+ MintAPI value ledger (msat) + TLC trace validation against a fee-charging Lightning model",
        text=SEQ + "The NoInflation invariant ((outstanding + owed) * 1000 + lnOut <= lnIn) and the guard feeLimit <= feeReserve are "
             "evaluated by TLC after every real step, with fees in {0,1,100,999,1000,2500} ppk and a backend that charges the whole limit.",
        note=TRUST),
    "C03": dict(
        category="model_checking", design_ref="§5 C03",
        technique="TLA+ MintAPI mint-quote machine + TLC: generated histories, and all interleavings of mint/poll/notification validated by linearizability search",
        text=SEQ + "Concurrency: every interleaving of up to three mint requests with different outputs, a quote poll and the "
             "(gated) invoice notification goroutine is executed on the real mint and validated by TLC (MintAccept.tla); "
             "IssueOncePerPayment in every state; NUT-20 signature classes from the generator.",
        note=TRUST),
    "C05": dict(
        category="model_checking", design_ref="§5 C05",
        technique="TLA+ MintAPI melt machine (C05 table as allowed-outcome sets) + TLC trace validation of scripted Lightning answers",
        text=SEQ + "Melts are driven with scripted backend answers (pay: success/pending/failed/error; status: notfound/error/failed/"
             "pending/succeeded) resolved through melt, quote polls and state checks; TLC checks each resulting state against the "
             "allowed-outcome table.",
        note=TRUST),
    "C06": dict(
        category="exploration", design_ref="§5 C06",
        technique="TLA+ MintAPI frame condition (reject => unchanged) checked by TLC on traces of adversarial histories",
        text=SEQ + "Every refused request must leave the raw-store projection unchanged (up to the effective quote state) and a panic "
             "is an event no action accepts.",
        note=TRUST),
    "C07": dict(
        category="fault_enumeration", design_ref="§5 C07",
        technique="crash/error enumeration at every storage/LN call on the real mint, post-crash traces validated by TLC against MintAPI + CrashOutcomes",
        text="For 16 victim operations (swap, mint, melt with each Lightning outcome incl. internal settlement, pending-melt "
             "resolution by poll and state check, rotation at run time and at start-up) the call sequence is measured and, for every "
             "k, the process is killed before call k (goroutine frozen, store closed, mint reloaded from the same directory) and, "
             "separately, call k fails; an adversarial follow-up runs on the restarted mint. TLC validates: post-crash state is "
             "all-or-nothing per phase, every follow-up step conforms to MintAPI, no inflation. The space is enumerated completely.",
        note="A crash is modelled between calls, not inside one (SQLite atomicity/durability trusted); the Lightning backend survives."),
    "C09": dict(
        category="model_checking", design_ref="§5 C09",
        technique="TLA+ MintAPI keyset component + TLC trace validation over rotation/restart histories",
        text=SEQ + "Histories interleave restarts, start-up and run-time rotations with fees {0,100,1000,2500} and traffic on old and "
             "new keysets; keyset listings are operations of the history checked against the spec state; fees are charged per input keyset.",
        note=TRUST),
    "C15": dict(
        category="model_checking", design_ref="§5 C15",
        technique="TLA+ MintAPI StateCheckTruth/RestoreTruth evaluated by TLC after every step of every history",
        text=SEQ + "After every state-changing step a state check over all known/unknown/repeated/malformed Ys and a restore over all "
             "known/unknown/repeated B_s are issued; TLC compares the replies (order, state, witness, amount, keyset, C_/DLEQ tag) with the spec state.",
        note=TRUST),
    "C16": dict(
        category="model_checking", design_ref="§5 C16",
        technique="TLA+ MintAPI balances/limits + TLC trace validation",
        text=SEQ + "Issued/redeemed per keyset, balance and info.disabled are queried after every step and compared by TLC with sums over the spec state.",
        note=TRUST),
}

NOT_YET = {
}


def main():
    props = [json.loads(l) for l in open(os.path.join(VERIF, "properties.jsonl"))]
    hooks = subprocess.run(["git", "-C", "/repo", "log", "--format=%H %s"], capture_output=True, text=True).stdout.splitlines()
    hook_commits = [l.split()[0] for l in hooks if "build-tagged" in l or l.split(" ", 1)[1].startswith("verif:")]
    checks, na = [], []
    for p in props:
        pid = p["id"]
        if pid in CHECKS:
            c = CHECKS[pid]
            checks.append({
                "property_id": pid,
                "quick_cmd": "./check %s" % pid,
                "thorough_cmd": "VERIF_TIER=thorough ./check %s" % pid,
                "evidence_file": "/verif/evidence/%s.json" % pid,
                "replay_cmd_template": "./check %s --replay {path}" % pid,
                "engine": c.get("engine", "tlc+vharness"),
                "level_claimed": {"category": c["category"], "text": c["text"], "design_ref": c["design_ref"]},
                "level_note": c["note"],
                "technique": c["technique"],
            })
        else:
            na.append({"property_id": pid, "reason": NOT_YET.get(pid, "check not built yet in this round (see DESIGN.md §5 for the plan)")})
    m = {
        "version": 1,
        "setup_cmd": "./setup.sh",
        "hooks": {
            "guard": "verif",
            "enable": "go build -tags verif (harness module with replace github.com/elnosh/gonuts => /repo)",
            "baseline_off_cmd": "cd /repo && GOFLAGS=-mod=mod GOPROXY=off go test -vet=off -count=1 ./...",
            "source_commits": hook_commits,
            "add_only": True,
        },
        "engines": [
            {"name": "tlc+vharness", "path": "/verif/check", "serves_properties": sorted(CHECKS),
             "kind_free_text": "TLA+ specifications under /verif/spec checked with TLC; Go harness (/verif/harness) replays "
                               "TLC-generated behaviours on the real code and records traces that TLC validates"},
        ],
        "checks": checks,
        "not_applicable": na,
        "notes": "exit 0 held / 1 violation / 2 infrastructure. Known findings in /verif/known_findings.jsonl.",
    }
    with open(os.path.join(VERIF, "MANIFEST.json"), "w") as f:
        json.dump(m, f, indent=1)


if __name__ == "__main__":
    main()
