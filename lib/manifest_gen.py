#!/usr/bin/env python3
"""Regenerates MANIFEST.json from the table below (single source of truth for the interface)."""
import json
import os
import subprocess

VERIF = os.path.dirname(os.path.dirname(os.path.abspath(__file__)))

CHECKS = {
    "C01": dict(
        category="model_checking", design_ref="§5 C01",
        technique="TLA+ spec (MintAPI) + TLC: generated histories replayed on the real mint, recorded traces validated by TLC",
        text="TLC-generated adversarial histories (every way of re-presenting a used secret) are replayed on the real mint; "
             "every recorded step is validated by TLC against MintAPI (verdict, post-state projection, NoDoubleSpend/SpentForever "
             "in every state). Exhaustive only for the bounded model (MintModel.cfg); real-code coverage is sampled by seed.",
        note="Trusts SQLite per-call atomicity, the Lightning model, the harness registry/projection (facts only) and TLC."),
}

NOT_YET = {
}


def main():
    props = [json.loads(l) for l in open(os.path.join(VERIF, "properties.jsonl"))]
    hooks = subprocess.run(["git", "-C", "/repo", "log", "--format=%H %s"], capture_output=True, text=True).stdout.splitlines()
    hook_commits = [l.split()[0] for l in hooks if "build-tagged" in l or l.split(" ", 1)[1].startswith("verif:")]
    checks, na = [], []
    for p in props:
        pid = p["id"]
        if pid in CHECKS:
            c = CHECKS[pid]
            checks.append({
                "property_id": pid,
                "quick_cmd": "./check %s" % pid,
                "thorough_cmd": "VERIF_TIER=thorough ./check %s" % pid,
                "evidence_file": "/verif/evidence/%s.json" % pid,
                "replay_cmd_template": "./check %s --replay {path}" % pid,
                "engine": c.get("engine", "tlc+vharness"),
                "level_claimed": {"category": c["category"], "text": c["text"], "design_ref": c["design_ref"]},
                "level_note": c["note"],
                "technique": c["technique"],
            })
        else:
            na.append({"property_id": pid, "reason": NOT_YET.get(pid, "check not built yet in this round (see DESIGN.md §5 for the plan)")})
    m = {
        "version": 1,
        "setup_cmd": "./setup.sh",
        "hooks": {
            "guard": "verif",
            "enable": "go build -tags verif (harness module with replace github.com/elnosh/gonuts => /repo)",
            "baseline_off_cmd": "cd /repo && GOFLAGS=-mod=mod GOPROXY=off go test -vet=off -count=1 ./...",
            "source_commits": hook_commits,
            "add_only": True,
        },
        "engines": [
            {"name": "tlc+vharness", "path": "/verif/check", "serves_properties": sorted(CHECKS),
             "kind_free_text": "TLA+ specifications under /verif/spec checked with TLC; Go harness (/verif/harness) replays "
                               "TLC-generated behaviours on the real code and records traces that TLC validates"},
        ],
        "checks": checks,
        "not_applicable": na,
        "notes": "exit 0 held / 1 violation / 2 infrastructure. Known findings in /verif/known_findings.jsonl.",
    }
    with open(os.path.join(VERIF, "MANIFEST.json"), "w") as f:
        json.dump(m, f, indent=1)


if __name__ == "__main__":
    main()
