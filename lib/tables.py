"""Decision-table checks: TLC enumerates the configuration space of a decision specification and
computes the verdict region of each case; the harness concretises every case on the real code;
TLC re-evaluates the verdict on every recorded line and reports mismatches."""
import json
import os
import re
import time

from core import BIN, Infra, build_harness, goenv, run, rundir, save_replay, seed, spec_copy, split_known, tier, tlc, write_evidence


def tlc_assume(sd, module, env, timeout=1200):
    cfg = module.replace(".tla", ".cfg")
    rc, out, dt = tlc(sd, module, cfg, env=env, workers=1, timeout=timeout, xmx="6g")
    if rc != 0 or "rror" in out.split("Starting...")[-1].split("Model checking completed")[0]:
        raise Infra("TLC %s failed:\n%s" % (module, out[-3000:]))
    return out, dt


def locks_key(r):
    c = r["c"]
    w = c["wit"]
    wit = w["form"] if w["form"] != "list" else "+".join(w["items"]) + ("+dup" if w["dup"] else "")
    if c["ep"] == "verify":
        return "%s|verify|expect=%s|actual=%s|nsigs=%d|npub=%d|lt=%s|nref=%d|wit=%s|hash=%s|pre=%s" % (
            c["kind"], r["expect"], r["actual"], c["nsigs"], c["npub"], c["lt"], c["nref"], wit, c["hash"], c["pre"])
    return "%s|%s|expect=%s|actual=%s|flag=%s|pos=%s|osig=%s|nsigs=%d|lt=%s|wit=%s" % (
        c["kind"], c["ep"], r["expect"], r["actual"], c["flag"], c["pos"], c["osig"], c["nsigs"], c["lt"], wit)


def locks_class(r):
    """Coarser grouping for reporting: one finding per (endpoint, expected, actual, distinguishing feature)."""
    c = r["c"]
    feat = []
    if c["flag"] == "all":
        feat.append("sigall/pos=%s/osig=%s" % (c["pos"], c["osig"]))
    w = c["wit"]
    if w["form"] == "list":
        keys = [i.rstrip("b2") if i in ("P1b", "L2") else i for i in w["items"]]
        if len(keys) != len(set(keys)):
            feat.append("same-key-twice")
    return "%s|%s|expect=%s|actual=%s|%s" % (c["kind"], c["ep"], r["expect"], r["actual"], ",".join(feat) or "-")


def check_locks(prop, which):
    t0 = time.time()
    build_harness()
    d = rundir("%s_%s" % (prop, tier()))
    sd = spec_copy(d)
    cases = os.path.join(d, "cases.ndjson")
    results = os.path.join(d, "results.ndjson")
    val = os.path.join(d, "validate.json")
    env = {"VERIF_TIER": tier(), "VERIF_WHICH": which, "VERIF_OUT": cases, "VERIF_SEED": str(seed())}
    out, dt1 = tlc_assume(sd, "LocksDump.tla", env)
    m = re.search(r'<<"CASES", (\d+)>>', out)
    ncases = int(m.group(1)) if m else 0
    scratch = "/dev/shm/verif-locks-%d" % os.getpid() if os.path.isdir("/dev/shm") else os.path.join(d, "scratch")
    rc, txt = run([os.path.join(BIN, "vharness"), "locks", "-in", cases, "-out", results, "-scratch", scratch, "-seed", str(seed())],
                  env=goenv(), timeout=3000)
    if rc != 0:
        raise Infra("locks driver failed (rc=%d):\n%s" % (rc, txt[-3000:]))
    out, dt2 = tlc_assume(sd, "LocksValidate.tla", {"VERIF_TIER": tier(), "VERIF_TRACE": results, "VERIF_TAGS": val})
    v = json.loads(open(val).readline())
    if v["n"] != ncases:
        raise Infra("TLC validated %d of %d cases" % (v["n"], ncases))
    if v["tampered"]:
        raise Infra("recorded expectations differ from the specification's verdict on %d lines" % v["tampered"])
    res = [json.loads(l) for l in open(results)]
    groups = {}
    for i in v["bad"]:
        r = res[i - 1]
        groups.setdefault(locks_class(r), []).append(r)
    unknown, known = split_known(prop, sorted(groups))
    for k in known:
        print("KNOWN-FINDING: property=%s %s (%s; %d cases)" % (prop, k["key"], k.get("what", ""), len(groups[k["key"]])))
    viol = []
    for key in unknown:
        r = groups[key][0]
        path = save_replay(prop, re.sub(r"[^A-Za-z0-9]+", "_", key)[:80],
                           {"property": prop, "kind": "locks", "key": key, "cases_in_class": len(groups[key]), "first_case": r,
                            "detail_key": locks_key(r)})
        print("VIOLATION property=%s replay=%s" % (prop, path))
        print("  finding: %s (%d cases), e.g. %s" % (key, len(groups[key]), locks_key(r)))
        viol.append(key)
    nmint = sum(1 for r in res if r["c"]["ep"] != "verify")
    cov = {"states": ncases, "transitions": ncases, "traces_validated_against_impl": ncases,
           "samples": [res[0], res[len(res) // 2], res[-1]],
           "evaluations": ncases, "distinct_nontrivial": v["regions"]["accept"] + v["regions"]["reject"],
           "rule": "cases are the elements of Locks!Cases(\"%s\") enumerated by TLC; non-trivial = verdict region accept or reject "
                   "(dontcare cases are executed but demand nothing)" % which,
           "regions": v["regions"], "verifier_level_cases": ncases - nmint, "mint_level_cases": nmint,
           "mismatching_cases": len(v["bad"]), "exhaustive": True,
           "explanation": "finite decision table enumerated completely for the tier's bounds (thorough: all witnesses up to length 3)",
           "tlc_dump_s": round(dt1, 1), "tlc_validate_s": round(dt2, 1), "known_findings_seen": [k["key"] for k in known]}
    write_evidence(prop, "model_checking", cov, time.time() - t0, len(viol),
                   ["secp256k1/Schnorr primitives of btcec are trusted for building witnesses", "lock times are one hour in the past / ten hours in the future"])
    return 1 if viol else 0


def check_tokens(prop="C14"):
    t0 = time.time()
    build_harness()
    d = rundir("%s_%s" % (prop, tier()))
    sd = spec_copy(d)
    cases = os.path.join(d, "cases.ndjson")
    results = os.path.join(d, "results.ndjson")
    val = os.path.join(d, "validate.json")
    out, dt1 = tlc_assume(sd, "TokenDump.tla", {"VERIF_TIER": tier(), "VERIF_OUT": cases})
    m = re.search(r'<<"CASES", (\d+)>>', out)
    ncases = int(m.group(1)) if m else 0
    rc, txt = run([os.path.join(BIN, "vharness"), "tokens", "-in", cases, "-out", results, "-seed", str(seed())], env=goenv(), timeout=3000)
    if rc != 0:
        raise Infra("tokens driver failed (rc=%d):\n%s" % (rc, txt[-3000:]))
    out, dt2 = tlc_assume(sd, "TokenValidate.tla", {"VERIF_TIER": tier(), "VERIF_TRACE": results, "VERIF_TAGS": val})
    v = json.loads(open(val).readline())
    if v["n"] != ncases:
        raise Infra("TLC validated %d of %d cases" % (v["n"], ncases))
    res = [json.loads(l) for l in open(results)]
    groups = {}
    for i in v["bad"]:
        r = res[i - 1]
        c = r["c"]
        if c["kind"] == "decode":
            key = "decode|%s|%s" % (c["cls"], r["actual"])
        else:
            key = "roundtrip|%s|incl=%s|dleq=%s|form=%s|expect=%s|actual=%s" % (c["ver"], c["incl"], c["dleq"], c["form"], r["expect"], r["actual"])
        groups.setdefault(key, []).append(r)
    unknown, known = split_known(prop, sorted(groups))
    for k in known:
        print("KNOWN-FINDING: property=%s %s (%s)" % (prop, k["key"], k.get("what", "")))
    viol = []
    for key in unknown:
        r = groups[key][0]
        path = save_replay(prop, re.sub(r"[^A-Za-z0-9]+", "_", key)[:80], {"property": prop, "kind": "tokens", "key": key, "case": r, "count": len(groups[key])})
        print("VIOLATION property=%s replay=%s" % (prop, path))
        print("  finding: %s (%d cases): %s" % (key, len(groups[key]), r["detail"][:160]))
        viol.append(key)
    ninputs = 0
    for r in res:
        m2 = re.search(r"(\d+) inputs", r.get("detail", ""))
        ninputs += int(m2.group(1)) if (m2 and r["c"]["kind"] == "decode") else 1
    cov = {"evaluations": ninputs, "distinct_nontrivial": v["regions"]["roundtrip"] + v["regions"]["fail"] + v["regions"]["total"],
           "rule": "cases are Token!Selected enumerated by TLC: round-trip shapes (law: roundtrip / fail / dontcare) and decoder input "
                   "classes (each class is concretised into many strings: every truncation and 5 byte values at every position of a valid "
                   "V3 and V4 token, 200 strings per length 0..8, 3000 random base64 bodies per format, hand-built JSON/CBOR). "
                   "evaluations counts concrete strings / round trips; distinct_nontrivial counts cases whose law demands something",
           "samples": [res[0], res[len(res) // 2], res[-1]], "regions": v["regions"], "cases": ncases, "mismatching_cases": len(v["bad"]),
           "exhaustive": False, "known_findings_seen": [k["key"] for k in known]}
    write_evidence(prop, "exploration", cov, time.time() - t0, len(viol),
                   ["the string space is covered by classes, not by all strings", "fxamacker/cbor and encoding/json are trusted as libraries"])
    return 1 if viol else 0
