"""Decision-table checks: TLC enumerates the configuration space of a decision specification and
computes the verdict region of each case; the harness concretises every case on the real code;
TLC re-evaluates the verdict on every recorded line and reports mismatches."""
import json
import os
import re
import time

from core import BIN, Infra, build_harness, goenv, run, rundir, save_replay, seed, spec_copy, split_known, tier, tlc, write_evidence


def tlc_assume(sd, module, env, timeout=1200):
    cfg = module.replace(".tla", ".cfg")
    rc, out, dt = tlc(sd, module, cfg, env=env, workers=1, timeout=timeout, xmx="6g")
    if rc != 0 or "rror" in out.split("Starting...")[-1].split("Model checking completed")[0]:
        raise Infra("TLC %s failed:\n%s" % (module, out[-3000:]))
    return out, dt


def locks_key(r):
    c = r["c"]
    w = c["wit"]
    wit = w["form"] if w["form"] != "list" else "+".join(w["items"]) + ("+dup" if w["dup"] else "")
    if c["ep"] == "verify":
        return "%s|verify|expect=%s|actual=%s|nsigs=%d|npub=%d|lt=%s|nref=%d|wit=%s|hash=%s|pre=%s" % (
            c["kind"], r["expect"], r["actual"], c["nsigs"], c["npub"], c["lt"], c["nref"], wit, c["hash"], c["pre"])
    return "%s|%s|expect=%s|actual=%s|flag=%s|pos=%s|osig=%s|nsigs=%d|lt=%s|wit=%s" % (
        c["kind"], c["ep"], r["expect"], r["actual"], c["flag"], c["pos"], c["osig"], c["nsigs"], c["lt"], wit)


def locks_class(r):
    """Coarser grouping for reporting: one finding per (endpoint, expected, actual, distinguishing feature)."""
    c = r["c"]
    feat = []
    if c["flag"] == "all":
        feat.append("sigall/pos=%s/osig=%s" % (c["pos"], c["osig"]))
    w = c["wit"]
    if w["form"] == "list":
        keys = [i.rstrip("b2") if i in ("P1b", "L2") else i for i in w["items"]]
        if len(keys) != len(set(keys)):
            feat.append("same-key-twice")
    return "%s|%s|expect=%s|actual=%s|%s" % (c["kind"], c["ep"], r["expect"], r["actual"], ",".join(feat) or "-")


def check_locks(prop, which):
    t0 = time.time()
    build_harness()
    d = rundir("%s_%s" % (prop, tier()))
    sd = spec_copy(d)
    cases = os.path.join(d, "cases.ndjson")
    results = os.path.join(d, "results.ndjson")
    val = os.path.join(d, "validate.json")
    env = {"VERIF_TIER": tier(), "VERIF_WHICH": which, "VERIF_OUT": cases, "VERIF_SEED": str(seed())}
    out, dt1 = tlc_assume(sd, "LocksDump.tla", env)
    m = re.search(r'<<"CASES", (\d+)>>', out)
    ncases = int(m.group(1)) if m else 0
    scratch = "/dev/shm/verif-locks-%d" % os.getpid() if os.path.isdir("/dev/shm") else os.path.join(d, "scratch")
    rc, txt = run([os.path.join(BIN, "vharness"), "locks", "-in", cases, "-out", results, "-scratch", scratch, "-seed", str(seed())],
                  env=goenv(), timeout=3000)
    if rc != 0:
        raise Infra("locks driver failed (rc=%d):\n%s" % (rc, txt[-3000:]))
    out, dt2 = tlc_assume(sd, "LocksValidate.tla", {"VERIF_TIER": tier(), "VERIF_TRACE": results, "VERIF_TAGS": val})
    v = json.loads(open(val).readline())
    if v["n"] != ncases:
        raise Infra("TLC validated %d of %d cases" % (v["n"], ncases))
    if v["tampered"]:
        raise Infra("recorded expectations differ from the specification's verdict on %d lines" % v["tampered"])
    res = [json.loads(l) for l in open(results)]
    groups = {}
    for i in v["bad"]:
        r = res[i - 1]
        groups.setdefault(locks_class(r), []).append(r)
    unknown, known = split_known(prop, sorted(groups))
    for k in known:
        print("KNOWN-FINDING: property=%s %s (%s; %d cases)" % (prop, k["key"], k.get("what", ""), len(groups[k["key"]])))
    viol = []
    for key in unknown:
        r = groups[key][0]
        path = save_replay(prop, re.sub(r"[^A-Za-z0-9]+", "_", key)[:80],
                           {"property": prop, "kind": "locks", "key": key, "cases_in_class": len(groups[key]), "first_case": r,
                            "detail_key": locks_key(r)})
        print("VIOLATION property=%s replay=%s" % (prop, path))
        print("  finding: %s (%d cases), e.g. %s" % (key, len(groups[key]), locks_key(r)))
        viol.append(key)
    nmint = sum(1 for r in res if r["c"]["ep"] != "verify")
    cov = {"states": ncases, "transitions": ncases, "traces_validated_against_impl": ncases,
           "samples": [res[0], res[len(res) // 2], res[-1]],
           "evaluations": ncases, "distinct_nontrivial": v["regions"]["accept"] + v["regions"]["reject"],
           "rule": "cases are the elements of Locks!Cases(\"%s\") enumerated by TLC; non-trivial = verdict region accept or reject "
                   "(dontcare cases are executed but demand nothing)" % which,
           "regions": v["regions"], "verifier_level_cases": ncases - nmint, "mint_level_cases": nmint,
           "mismatching_cases": len(v["bad"]), "exhaustive": True,
           "explanation": "finite decision table enumerated completely for the tier's bounds (thorough: all witnesses up to length 3)",
           "tlc_dump_s": round(dt1, 1), "tlc_validate_s": round(dt2, 1), "known_findings_seen": [k["key"] for k in known]}
    write_evidence(prop, "model_checking", cov, time.time() - t0, len(viol),
                   ["secp256k1/Schnorr primitives of btcec are trusted for building witnesses", "lock times are one hour in the past / ten hours in the future"])
    return 1 if viol else 0
