"""Registry: property id -> check function."""
import json

import minthist
from core import tier

CHECKS = {}


def reg(p):
    def deco(fn):
        CHECKS[p] = fn
        return fn
    return deco


@reg("C01")
def c01():
    return minthist.check("C01")


def replay(prop, path):
    with open(path) as f:
        rp = json.load(f)
    if rp.get("kind") == "minthist":
        return minthist.replay(prop, rp)
    print("unknown replay kind")
    return 2
