"""Registry: property id -> check function."""
import json
import os

import time

import conc
import c05
import crash
import cryptocheck
import minthist
import proofgate
import tables
import wallethist
import wcrash
from core import tier, write_evidence

ASSUME = ["SQLite gives per-call atomicity (a crash or a context switch happens between storage calls, not inside one)",
          "the Lightning model stands in for LND/CLN",
          "harness registry/projection reports facts correctly"]


def merged(prop, seq_kwargs, scns):
    """Sequential TLC-generated histories + exhaustive interleavings of concurrent scenarios."""
    t0 = time.time()
    cov1, v1 = minthist.check(prop, collect=True, with_model=True, **seq_kwargs)
    cov2, v2, _ = conc.check(prop, scns)
    cov3, v3 = None, 0
    if prop in ("C01", "C03"):
        # behaviours of MintSteps (four and five concurrent requests) replayed on the real mint
        cov3, v3, _ = conc.guided_check(prop)
        v2 += v3
        for k in ("states", "transitions", "traces_validated_against_impl", "evaluations", "distinct_nontrivial"):
            cov2[k] += cov3[k]
        cov2["known_findings_seen"] = cov2["known_findings_seen"] + cov3["known_findings_seen"]
    cov = dict(cov1)
    cov["states"] = cov1["states"] + cov2["states"]
    cov["transitions"] = cov1["transitions"] + cov2["transitions"]
    cov["traces_validated_against_impl"] = cov1["traces_validated_against_impl"] + cov2["traces_validated_against_impl"]
    cov["evaluations"] = cov1["evaluations"] + cov2["evaluations"]
    cov["distinct_nontrivial"] = cov1["distinct_nontrivial"] + cov2["distinct_nontrivial"]
    cov["samples"] = cov1["samples"] + cov2["samples"]
    cov["sequential"] = {k: cov1[k] for k in ("events_by_kind", "accepted", "rejected", "generator_constants", "tags_of_other_properties", "bounded_model")}
    cov["concurrent"] = {k: cov2[k] for k in ("scenarios", "exhaustive", "rejected_executions", "rejected_signatures", "rule")}
    cov["layer2_model"] = cov2["layer2_model"]
    cov["layer2_conformance"] = cov2["layer2_conformance"]
    if cov3:
        cov["model_guided_schedules"] = {k: cov3[k] for k in ("generated_from_model", "traces_validated_against_impl", "rejected_executions",
                                                               "rejected_signatures", "layer2_conformance")}
        cov["model_guided_schedules"]["rule"] = ("behaviours of MintSteps drawn by TLC -simulate for scenarios of four and five concurrent requests; each is "
                                                 "one execution of the real mint with that schedule (lenient) and that behaviour's Lightning answers, validated by "
                                                 "MintAccept (linearizability) and by MintStepsTrace (its call sequence must be a behaviour of MintSteps again)")
    cov["known_findings_seen"] = cov1["known_findings_seen"] + cov2["known_findings_seen"]
    cov["exhaustive"] = False
    write_evidence(prop, "model_checking", cov, time.time() - t0, v1 + v2, ASSUME)
    return 1 if (v1 + v2) else 0

CHECKS = {}


def reg(p):
    def deco(fn):
        CHECKS[p] = fn
        return fn
    return deco


def spent_replay_matrix():
    """Directed: every way a melt ends PAID (pay call success; pay call failed / errored but the immediate lookup says succeeded;
    in flight, then a quote poll / a state check learns the success; ambiguous lookup then success; internal settlement), and
    every way a swap ends, followed by every re-presentation of the consumed secrets: state check, swap, melt of another
    quote, before and after a restart."""
    hs = []
    paths = {
        "pay-success": ({"pay": ["success"]}, []),
        "failed-then-succeeded": ({"pay": ["failed"], "status": ["succeeded"]}, []),
        "error-then-succeeded": ({"pay": ["error"], "status": ["succeeded"]}, []),
        "pending-poll": ({"pay": ["pending"]}, [{"op": "pollmelt", "q": "lq1", "status": ["succeeded"]}]),
        "pending-statecheck": ({"pay": ["pending"]}, [{"op": "checkstate", "ys": ["b1"], "status": ["succeeded"]}]),
        "error-pending-poll": ({"pay": ["error"], "status": ["pending"]}, [{"op": "pollmelt", "q": "lq1", "status": ["succeeded"]}]),
        "error-error-poll": ({"pay": ["error"], "status": ["error"]}, [{"op": "pollmelt", "q": "lq1", "status": ["succeeded"]}]),
    }
    replays = [{"op": "checkstate", "ys": ["b1", "b2"]}, {"op": "swap", "ins": [{"p": "b1"}], "outs": [{"amt": 8}]},
               {"op": "melt", "q": "lq2", "ins": [{"p": "b1"}], "pay": ["success"]},
               {"op": "swap", "ins": [{"p": "b2"}, {"p": "b1"}], "outs": [{"amt": 8}, {"amt": 4}]},
               {"op": "swap", "ins": [{"p": "b1", "var": "dleq"}], "outs": [{"amt": 8}]},
               {"op": "swap", "ins": [{"p": "b1", "var": "amt:4"}], "outs": [{"amt": 4}]},
               {"op": "swap", "ins": [{"p": "b2", "var": "nosign"}], "outs": [{"amt": 4}]},
               {"op": "swap", "ins": [{"p": "b2", "var": "wit"}], "outs": [{"amt": 4}]}]
    fund = [{"op": "mintquote", "amt": 13}, {"op": "settle", "q": "mq1"}, {"op": "mint", "q": "mq1", "outs": [{"amt": 8}, {"amt": 4, "lock": "K1"}, {"amt": 1}]}]
    for name, (script, resolve) in paths.items():
        ops = fund + [{"op": "meltquote", "kind": "ext", "amt": 6}, {"op": "meltquote", "kind": "ext", "amt": 5},
                      dict({"op": "melt", "q": "lq1", "ins": [{"p": "b1"}]}, **script)] + resolve + replays + [{"op": "restart"}] + replays
        hs.append({"fee": 0, "mpp": False, "policy": "min1", "probe": "passive", "ops": ops})
    # internal settlement
    ops = fund + [{"op": "mintquote", "amt": 7}, {"op": "meltquote", "kind": "int", "q": "mq2"}, {"op": "meltquote", "kind": "ext", "amt": 5},
                  {"op": "melt", "q": "lq1", "ins": [{"p": "b1"}]}] + replays + [{"op": "restart"}] + replays
    hs.append({"fee": 0, "mpp": False, "policy": "min1", "probe": "passive", "ops": ops})
    # swap, incl. a locked input with its witness, then replays with and without the witness
    ops = fund + [{"op": "swap", "ins": [{"p": "b1"}, {"p": "b2"}], "outs": [{"amt": 8}, {"amt": 4}]},
                  {"op": "meltquote", "kind": "ext", "amt": 5}, {"op": "meltquote", "kind": "ext", "amt": 5}] + replays + [{"op": "restart"}] + replays
    hs.append({"fee": 0, "mpp": False, "policy": "min1", "probe": "passive", "ops": ops})
    return hs


@reg("C01")
def c01():
    return merged("C01", {"extra_histories": spent_replay_matrix()}, conc.c01_scenarios())


def own_invoice_matrix():
    """Directed: melt quotes on the mint's own invoices (plain and NUT-15 partial) for every state of the mint quote,
    followed up as if accepted - melt of the (possibly ghost) quote, then another mint on the target quote."""
    hs = []
    for mpp in (True, False):
        for state in ("UNPAID", "PAID", "ISSUED"):
            for kind in ("int", "mppint", "forged"):
                ops = [{"op": "mintquote", "amt": 13}, {"op": "settle", "q": "mq1"},
                       {"op": "mint", "q": "mq1", "outs": [{"amt": 8}, {"amt": 4}, {"amt": 1}]},
                       {"op": "mintquote", "amt": 5}]
                if state != "UNPAID":
                    ops += [{"op": "settle", "q": "mq2"}, {"op": "pollmint", "q": "mq2"}]
                if state == "ISSUED":
                    ops += [{"op": "mint", "q": "mq2", "outs": [{"amt": 4}, {"amt": 1}]}]
                ops += [{"op": "meltquote", "kind": kind, "q": "mq2", "msat": 1000},
                        {"op": "melt", "q": "lq1", "ins": [{"p": "b1"}] if kind == "int" else [{"p": "b2"}]},
                        {"op": "pollmint", "q": "mq2"},
                        {"op": "mint", "q": "mq2", "outs": [{"amt": 4}, {"amt": 1}]},
                        {"op": "mint", "q": "mq2", "outs": [{"amt": 4}, {"amt": 1}]},
                        {"op": "balances"}]
                hs.append({"fee": 0, "mpp": mpp, "policy": "min1", "probe": "all", "ops": ops})
    # outputs that add up to just below 2^64 (31 x 2^59 and one of each smaller key: 2^64 - 1) for a one-sat input, on a fee-bearing
    # keyset and on a free one; then the same with one unit more (the outputs' own sum overflows)
    for fee in (100, 0):
        outs = [{"big": "2^59"}] * 31 + [{"amt": 1 << k} for k in range(59)]
        ops = [{"op": "mintquote", "amt": 13}, {"op": "settle", "q": "mq1"}, {"op": "mint", "q": "mq1", "outs": [{"amt": 8}, {"amt": 4}, {"amt": 1}]},
               {"op": "swap", "ins": [{"p": "b3"}], "outs": outs}, {"op": "swap", "ins": [{"p": "b2"}, {"p": "b3"}], "outs": outs + [{"amt": 1}]},
               {"op": "balances"}, {"op": "swap", "ins": [{"p": "b3"}, {"p": "b2"}], "outs": [{"amt": 4}] if fee else [{"amt": 4}, {"amt": 1}]}, {"op": "balances"}]
        hs.append({"fee": fee, "mpp": False, "policy": "min1", "probe": "passive", "ops": ops})
    # NUT-15 partial payments of outside invoices: every msat class (whole sats, just above, just below); the melt is attempted
    # with 1, 2, 3, ... sats of inputs, so the first attempt the mint accepts burns exactly what it asks for and not more
    for kind, ms in [("mpp", x) for x in (1000, 1001, 1500, 2999, 4001, 8000)] + [("ext", x) for x in (1001, 1500, 2999, 3000)]:
        for pay in (["success"], ["pending"]):
            ops = [{"op": "mintquote", "amt": 13}, {"op": "settle", "q": "mq1"},
                   {"op": "mint", "q": "mq1", "outs": [{"amt": 1}] * 13},
                   {"op": "meltquote", "kind": kind, "msat": ms, "amt": (ms + 999) // 1000}]
            for k in range(1, (ms + 999) // 1000 + 3):
                ops.append({"op": "melt", "q": "lq1", "ins": [{"p": "b%d" % i} for i in range(1, k + 1)], "pay": pay})
            ops += [{"op": "pollmelt", "q": "lq1", "status": ["succeeded"]}, {"op": "balances"}]
            hs.append({"fee": 0, "mpp": kind == "mpp", "policy": "min1", "probe": "passive", "ops": ops})
    return hs


@reg("C02")
def c02():
    # fee-bearing keysets incl. the boundary values named by the property
    return minthist.check("C02", fees=(0, 1, 100, 999, 1000, 2500), policy="min1", mpp_set=(True, False), with_model=True,
                          num=300 if tier() == "quick" else None, extra_histories=own_invoice_matrix())


@reg("C03")
def c03():
    return merged("C03", dict(profile=["mintquote", "settle", "notify", "pollmint", "mint", "meltquote", "melt", "restart", "swap"],
                              gen_overrides={"MaxMq": 5}, mpp_set=(True, False), policy="min1",
                              extra_histories=own_invoice_matrix()[:12]), conc.c03_scenarios())


@reg("C04")
def c04():
    return proofgate.check("C04")


@reg("C05")
def c05_check():
    return c05.check("C05")


def repeated_output_matrix():
    """Directed: requests that repeat one blinded message among their outputs - as identical copies, with another amount, and
    spelled in upper-case hex (another string for the same point) - in a swap and in a mint, each followed by the corrected request
    with the same inputs / on the same quote."""
    fund = [{"op": "mintquote", "amt": 13}, {"op": "settle", "q": "mq1"}, {"op": "mint", "q": "mq1", "outs": [{"amt": 8}, {"amt": 4}, {"amt": 1}]}]
    look = [{"op": "checkstate", "ys": ["b1", "b2", "b3"]}, {"op": "balances"}]
    hs = []
    for http in (False, True):
        for amt2, form in ((4, ""), (2, ""), (4, "upper"), (2, "upper")):
            n = [3]   # outputs registered so far (b1..b3 by the funding mint)

            def fresh(amt):
                n[0] += 1
                return {"amt": amt}

            def repeat(of, amt):
                o = {"amt": amt, "b": "b%d" % of}
                if form:
                    o["form"] = form
                    n[0] += 1     # an upper-case spelling is registered as an output of its own
                return o

            def request():
                first = fresh(4)
                k = n[0]
                outs = [first, repeat(k, amt2)]
                if 8 - 4 - amt2 > 0:
                    outs.append(fresh(8 - 4 - amt2))
                return outs

            ops = fund + [{"op": "swap", "ins": [{"p": "b1"}], "outs": request()}] + look + \
                [{"op": "swap", "ins": [{"p": "b1"}], "outs": [fresh(4), fresh(4)]}] + look + \
                [{"op": "mintquote", "amt": 8}, {"op": "settle", "q": "mq2"}, {"op": "pollmint", "q": "mq2"},
                 {"op": "mint", "q": "mq2", "outs": request()}, {"op": "pollmint", "q": "mq2"},
                 {"op": "mint", "q": "mq2", "outs": [fresh(4), fresh(4)]}] + look + \
                [{"op": "restore", "bs": ["b%d" % i for i in range(1, n[0] + 1)]}]
            hs.append({"fee": 0, "mpp": False, "policy": "min1", "probe": "passive", "http": http, "ops": ops})
    return hs


@reg("C06")
def c06():
    return minthist.check("C06", level="exploration", malformed=5, probe="passive", num=50 if tier() == "quick" else 1200,
                          extra_histories=repeated_output_matrix())


@reg("C07")
def c07():
    return crash.check("C07")


def split_amounts(v):
    return [{"amt": 1 << i} for i in range(v.bit_length()) if v >> i & 1]


def rotation_fee_matrix():
    """Directed: ecash on two keysets with different input_fee_ppk, spent together in one swap / melt, in both input orders, with
    outputs worth exactly inputs minus the fee MintAPI computes (and one unit more, which must be refused)."""
    hs = []
    for f1, f2 in ((0, 1000), (1000, 0), (100, 2500), (999, 1), (2500, 2500)):
        for order in (0, 1):
            fee2 = (f1 + f2 + 999) // 1000
            a, b = ("b1", "b4") if order == 0 else ("b4", "b1")
            c, d = ("b2", "b5") if order == 0 else ("b5", "b2")
            ops = [{"op": "mintquote", "amt": 13}, {"op": "settle", "q": "mq1"},
                   {"op": "mint", "q": "mq1", "outs": [{"amt": 8}, {"amt": 4}, {"amt": 1}]},
                   {"op": "rotate", "fee": f2},
                   {"op": "mintquote", "amt": 12}, {"op": "settle", "q": "mq2"},
                   {"op": "mint", "q": "mq2", "outs": [{"amt": 8}, {"amt": 4}]}, {"op": "keysets"},
                   # one unit too many out: refused; then the exact amount: accepted
                   {"op": "swap", "ins": [{"p": a}, {"p": b}], "outs": split_amounts(16 - fee2 + 1)},
                   {"op": "swap", "ins": [{"p": a}, {"p": b}], "outs": split_amounts(16 - fee2)},
                   {"op": "meltquote", "kind": "ext", "amt": 8 - fee2 - 1},
                   {"op": "melt", "q": "lq1", "ins": [{"p": c}, {"p": d}], "pay": ["success"]},
                   {"op": "restart"}, {"op": "keysets"}, {"op": "balances"}]
            hs.append({"fee": f1, "mpp": False, "policy": "min1", "probe": "all", "ops": ops})
    return hs


@reg("C09")
def c09():
    extra, v = cryptocheck.keyset_derivation("C09")
    # the lifecycle at storage-call level (KeysetSteps.tla), exhaustive with crashes and a failing call
    import steps
    from core import rundir, spec_copy
    extra = dict(extra or {})
    extra["keyset_steps_model"] = steps.keyset_model(spec_copy(rundir("C09_ks_%s" % tier())))
    rc = minthist.check("C09", fees=(0, 100, 1000, 2500), extra_cov=extra, extra_histories=rotation_fee_matrix())
    return 1 if (v or rc) else 0


@reg("C10")
def c10():
    return cryptocheck.check("C10", "bdhke")


@reg("C11")
def c11():
    return cryptocheck.check("C11", "derive")


@reg("C12")
def c12():
    return tables.check_locks("C12", "p2pk")


@reg("C13")
def c13():
    return tables.check_locks("C13", "htlc")


@reg("C14")
def c14():
    return tables.check_tokens("C14")


def witness_matrix():
    """Directed: a P2PK-locked proof (with its witness) and a plain one, consumed by a swap and by a melt along every resolution
    path (paid at once, in flight then paid through a quote poll / a state check, in flight then failed), with a state check and a
    restore of every output after each step and after a restart."""
    fund = [{"op": "mintquote", "amt": 13}, {"op": "settle", "q": "mq1"}, {"op": "mint", "q": "mq1", "outs": [{"amt": 8}, {"amt": 4, "lock": "K1"}, {"amt": 1}]}]
    ys = ["b1", "b2", "b3", "unknown"]
    look = [{"op": "checkstate", "ys": ys}, {"op": "restore", "bs": ["b1", "b2", "b3", "b4", "b5", "unknown"]}]
    hs = []
    paths = {
        "swap": [{"op": "swap", "ins": [{"p": "b2"}, {"p": "b3"}], "outs": [{"amt": 4}, {"amt": 1}]}],
        "melt-paid": [{"op": "meltquote", "kind": "ext", "amt": 3}, {"op": "melt", "q": "lq1", "ins": [{"p": "b2"}, {"p": "b3"}], "pay": ["success"]}],
        "melt-pending-poll-paid": [{"op": "meltquote", "kind": "ext", "amt": 3}, {"op": "melt", "q": "lq1", "ins": [{"p": "b2"}, {"p": "b3"}], "pay": ["pending"]}] + look +
                                  [{"op": "pollmelt", "q": "lq1", "status": ["pending"]}] + look + [{"op": "pollmelt", "q": "lq1", "status": ["succeeded"]}],
        "melt-pending-check-paid": [{"op": "meltquote", "kind": "ext", "amt": 3}, {"op": "melt", "q": "lq1", "ins": [{"p": "b2"}, {"p": "b3"}], "pay": ["pending"]}] + look +
                                   [{"op": "checkstate", "ys": ["b3", "b2"], "status": ["succeeded"]}],
        "melt-pending-failed": [{"op": "meltquote", "kind": "ext", "amt": 3}, {"op": "melt", "q": "lq1", "ins": [{"p": "b2"}, {"p": "b3"}], "pay": ["pending"]}] + look +
                               [{"op": "checkstate", "ys": ["b2"], "status": ["failed"]}] + look + [{"op": "swap", "ins": [{"p": "b2"}], "outs": [{"amt": 4}]}],
        "melt-error-then-paid": [{"op": "meltquote", "kind": "ext", "amt": 3}, {"op": "melt", "q": "lq1", "ins": [{"p": "b2"}, {"p": "b3"}], "pay": ["error"], "status": ["pending"]}] + look +
                                [{"op": "pollmelt", "q": "lq1", "status": ["succeeded"]}],
    }
    for name, ops in paths.items():
        for http in (False, True):
            hs.append({"fee": 0, "mpp": False, "policy": "min1", "probe": "passive", "http": http, "ops": fund + look + ops + look + [{"op": "restart"}] + look})
    # the same restore / state-check request before and after the outputs and proofs it names change state: a swap refused for
    # too many outputs leaves them unsigned, the corrected swap signs the very same blinded messages
    for http in (False, True):
        # only outputs that exist by then are named: a placeholder for an unknown id would make every request body differ
        ask = [{"op": "restore", "bs": ["b1", "b2", "b3", "b4", "b5"]}, {"op": "checkstate", "ys": ["b1", "b2", "b3", "b4", "b5"]}]
        ops = fund + [{"op": "swap", "ins": [{"p": "b1"}], "outs": [{"amt": 8}, {"amt": 1}]}] + ask + \
            [{"op": "swap", "ins": [{"p": "b1"}, {"p": "b3"}], "outs": [{"amt": 8, "b": "b4"}, {"amt": 1, "b": "b5"}]}] + ask + ask + \
            [{"op": "mintquote", "amt": 4}, {"op": "settle", "q": "mq2"}, {"op": "mint", "q": "mq2", "outs": [{"amt": 4}]}] + ask + [{"op": "restart"}] + ask
        hs.append({"fee": 0, "mpp": False, "policy": "min1", "probe": "passive", "http": http, "ops": ops})
    return hs


@reg("C15")
def c15():
    return minthist.check("C15", extra_histories=witness_matrix())


def limit_overshoot():
    """Directed: overlapping mint quotes, each accepted below the maximum balance, both minted, so that the balance
    ends strictly above the maximum; then further quotes (must be refused), melts back below the limit and quotes again."""
    hs = []
    for maxbal, a, b in ((15, 2, 2), (14, 1, 1), (20, 5, 5), (13, 0, 0)):
        ops = [{"op": "mintquote", "amt": 13}, {"op": "settle", "q": "mq1"},
               {"op": "mint", "q": "mq1", "outs": [{"amt": 8}, {"amt": 4}, {"amt": 1}]}, {"op": "balances"}]
        n = 1
        for amt in (a, b):
            if amt:
                n += 1
                ops += [{"op": "mintquote", "amt": amt}]
        for k in range(2, n + 1):
            ops += [{"op": "settle", "q": "mq%d" % k}, {"op": "mint", "q": "mq%d" % k, "outs": [{"amt": x} for x in ((4, 1) if (a, b)[k - 2] == 5 else (2,) if (a, b)[k - 2] == 2 else (1,))]}]
        ops += [{"op": "balances"}, {"op": "mintquote", "amt": 1}, {"op": "mintquote", "amt": 2}, {"op": "mintquote", "amt": 8},
                {"op": "meltquote", "kind": "ext", "amt": 6}, {"op": "melt", "q": "lq1", "ins": [{"p": "b1"}], "pay": ["success"]},
                {"op": "balances"}, {"op": "mintquote", "amt": 1}, {"op": "mintquote", "amt": 8}, {"op": "balances"}]
        for http in (False, True):
            hs.append({"fee": 0, "mpp": False, "policy": "min1", "probe": "all", "http": http,
                       "limits": {"maxbal": maxbal, "maxmint": 0, "maxmelt": 0}, "ops": ops})
    return hs


@reg("C16")
def c16():
    # each limit unset / small / exactly at the boundary of what the funded history reaches (13 minted at start)
    lims = [(0, 0, 0), (13, 0, 0), (14, 0, 0), (16, 5, 0), (21, 0, 3), (0, 3, 5), (30, 13, 8), (12, 8, 2)]
    return minthist.check("C16", limits=lims, profile=["mintquote", "settle", "pollmint", "mint", "swap", "meltquote", "melt", "pollmelt", "restart"],
                          gen_overrides={"MaxMq": 7, "MaxLq": 4}, extra_histories=limit_overshoot())


@reg("C17")
def c17():
    return wallethist.check("C17")


@reg("C08")
def c08():
    return wallethist.check("C08")


@reg("C19")
def c19():
    t0 = time.time()
    cov, v1 = wallethist.check("C19", profile=["mint", "send", "receive", "melt", "checkmelt", "reclaim", "removespent", "rotate", "restore", "sendlocked", "sendhtlc", "mintswap"],
                               collect=True)
    cov2, v2 = wcrash.check("C19")
    cm = wcrash.counter_model()
    cov["design_model"] = cm
    cov["states"] += cm["variants"]["code"]["distinct_states"]
    cov["transitions"] += cm["variants"]["code"]["states_generated"]
    for k in ("states", "transitions", "traces_validated_against_impl", "evaluations", "distinct_nontrivial"):
        cov[k] = cov[k] + cov2[k]
    cov["known_findings_seen"] = cov["known_findings_seen"] + cov2["known_findings_seen"]
    cov["wallet_crash_enumeration"] = {k: cov2[k] for k in ("crash_scenarios", "crash_executions", "crash_rule", "events_by_kind", "operations_ok",
                                                              "operations_failed", "tags_of_other_properties")}
    write_evidence("C19", "model_checking", cov, time.time() - t0, v1 + v2,
                   ["honest mints (the real mint code) and the Lightning model", "the harness's NUT-13 table (repository derivation, identification only) "
                    "recognises the wallets' deterministic outputs for counters below 160 per keyset (700 in long histories)",
                    "a killed wallet process is a goroutine frozen before a storage write / HTTP request / HTTP reply; bbolt's own crash atomicity is assumed"])
    return 1 if (v1 + v2) else 0


@reg("C18")
def c18():
    t0 = time.time()
    cov1, v1, _ = wallethist.check_send_cases("C18")
    cov2, v2 = wallethist.check("C18", profile=["mint", "send", "sendlocked", "sendhtlc", "receive", "rotate"], fees=(0, 100, 250, 500, 1000, 2000), collect=True,
                                num=30 if tier() == "quick" else 800)
    cov = dict(cov1)
    for k in ("states", "transitions", "traces_validated_against_impl", "evaluations", "distinct_nontrivial"):
        cov[k] = cov1[k] + cov2[k]
    cov["samples"] = cov1["samples"] + cov2["samples"][:1]
    cov["histories"] = {k: cov2[k] for k in ("events_by_kind", "operations_ok", "operations_failed", "generator_constants")}
    cov["tags_of_other_properties"] = sorted(set(cov1["tags_of_other_properties"]) | set(cov2["tags_of_other_properties"]))
    cov["known_findings_seen"] = sorted(set(cov1["known_findings_seen"]) | set(cov2["known_findings_seen"]))
    write_evidence("C18", "model_checking", cov, time.time() - t0, v1 + v2,
                   ["wallet content is injected into the wallet store as genuine proofs obtained straight from the mint (hook VerifDB)",
                    "honest mint, fees per keyset as configured"])
    return 1 if (v1 + v2) else 0


@reg("C20")
def c20():
    t0 = time.time()
    cov, v1 = minthist.check("C20", http=True, malformed=3, probe="all", num=70 if tier() == "quick" else 1500, collect=True)
    cov2, v2 = crash.fault_http("C20")
    cov["fault_reporting"] = cov2
    cov["evaluations"] += cov2["events"]
    cov["states"] += cov2["tlc_states"]
    cov["traces_validated_against_impl"] += cov2["fault_executions"]
    cov["known_findings_seen"] = cov["known_findings_seen"] + cov2["known_findings_seen"]
    write_evidence("C20", "model_checking", cov, time.time() - t0, v1 + v2,
                   ["SQLite gives per-call atomicity; the Lightning model stands in for LND/CLN",
                    "'internal detail' is recognised by the marker text carried by every error the harness injects into storage and Lightning calls"])
    return 1 if (v1 + v2) else 0


def replay(prop, path):
    """./check <id> --replay <path>: re-run what a VIOLATION line pointed at, on the current tree.  Exit 1 (with VIOLATION lines)
    if the finding is still there, 0 if it is gone.  Evidence files are not touched."""
    with open(path) as f:
        rp = json.load(f)
    os.environ["VERIF_REPLAY"] = "1"
    if "seed" in rp:
        os.environ["VERIF_SEED"] = str(rp["seed"])
    kind = rp.get("kind")
    if kind == "minthist" and rp.get("history"):
        h = dict(rp["history"])
        h["id"] = 1
        _, v = minthist.check(prop, given=[h], collect=True)
        return 1 if v else 0
    if kind == "wallethist" and rp.get("history"):
        h = dict(rp["history"])
        h["id"] = 1
        _, v = wallethist.check(prop, given=[h], collect=True, with_directed=False)
        return 1 if v else 0
    if kind == "conc" and rp.get("scenario"):
        _, v, _ = conc.check(prop, [rp["scenario"]])
        return 1 if v else 0
    if kind == "crash" and rp.get("scenario"):
        return crash.check(prop, only=[rp["scenario"]["name"]])
    if kind == "fault-http" and rp.get("scenario"):
        _, v = crash.fault_http(prop, only=[rp["scenario"]["name"]])
        return 1 if v else 0
    # decision tables, reference evaluation, send cases: the finding is a class of cases of a finite table; the whole
    # table is cheap enough to run again
    fn = CHECKS.get(prop)
    return fn() if fn else 2
