"""Registry: property id -> check function."""
import json

import minthist
from core import tier

CHECKS = {}


def reg(p):
    def deco(fn):
        CHECKS[p] = fn
        return fn
    return deco


@reg("C01")
def c01():
    return minthist.check("C01")


@reg("C02")
def c02():
    # fee-bearing keysets incl. the boundary values named by the property
    return minthist.check("C02", fees=(0, 1, 100, 999, 1000, 2500), policy="min1")


@reg("C03")
def c03():
    return minthist.check("C03", profile=["mintquote", "settle", "notify", "pollmint", "mint", "meltquote", "melt", "restart", "swap"],
                          gen_overrides={"MaxMq": 5})


@reg("C05")
def c05():
    return minthist.check("C05", profile=["mintquote", "settle", "mint", "swap", "meltquote", "melt", "pollmelt", "checkstate", "restart"],
                          probe="passive")


@reg("C06")
def c06():
    return minthist.check("C06")


@reg("C09")
def c09():
    return minthist.check("C09", fees=(0, 100, 1000, 2500))


@reg("C15")
def c15():
    return minthist.check("C15")


@reg("C16")
def c16():
    return minthist.check("C16")


def replay(prop, path):
    with open(path) as f:
        rp = json.load(f)
    if rp.get("kind") == "minthist":
        return minthist.replay(prop, rp)
    print("unknown replay kind")
    return 2
