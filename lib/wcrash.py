"""C19, crash clause: a wallet process killed between any two of its storage writes / HTTP calls / HTTP replies during
mint, send, receive, melt (and the operations they are built from); then restored from the mnemonic into an empty
directory; then continued and restored again.  The crash points of every victim operation are measured by a dry run
(k = 0) and enumerated completely; WalletTrace judges every restore against the mint-side truth (Wallet!RestoreStep)."""
import json
import os

import re

import wallethist
from core import Infra, rundir, spec_copy, tier, tlc

MINTS = [{"name": "ma", "fee": 100, "policy": "min1"}, {"name": "mb", "fee": 0, "policy": "min1"}]
WALLETS = [{"name": "w1", "default": "ma"}, {"name": "w2", "default": "ma"}, {"name": "w3", "default": "mb"}]

PREFIX = [{"op": "mint", "w": "w1", "m": "ma", "amt": 64}, {"op": "mint", "w": "w1", "m": "ma", "amt": 21},
          {"op": "mint", "w": "w2", "m": "ma", "amt": 32}, {"op": "send", "w": "w2", "m": "ma", "amt": 10},          # t1
          {"op": "mint", "w": "w3", "m": "mb", "amt": 50}, {"op": "send", "w": "w3", "m": "mb", "amt": 20}]          # t2
SUFFIX = [{"op": "restore", "w": "w1"}, {"op": "mint", "w": "w1", "m": "ma", "amt": 5}, {"op": "send", "w": "w1", "m": "ma", "amt": 3},
          {"op": "restore", "w": "w1"}]


def scenarios():
    sc = [
        ("mint", [], {"op": "mint", "w": "w1", "m": "ma", "amt": 13}),
        ("send-swap", [], {"op": "send", "w": "w1", "m": "ma", "amt": 7}),
        ("send-swap-large", [], {"op": "send", "w": "w1", "m": "ma", "amt": 50}),
        ("send-fees", [], {"op": "send", "w": "w1", "m": "ma", "amt": 18, "fees": True}),
        ("send-exact", [], {"op": "send", "w": "w1", "m": "ma", "amt": 16}),
        ("sendlocked", [], {"op": "sendlocked", "w": "w1", "m": "ma", "amt": 9, "to": "w2"}),
        ("receive", [], {"op": "receive", "w": "w1", "tok": "t1"}),
        ("receive-swap-to-trusted", [], {"op": "receive", "w": "w1", "tok": "t2", "swap": True}),
        ("melt-success", [], {"op": "melt", "w": "w1", "m": "ma", "amt": 20, "pay": ["success"]}),
        ("melt-pending", [], {"op": "melt", "w": "w1", "m": "ma", "amt": 20, "pay": ["pending"]}),
        ("melt-failed", [], {"op": "melt", "w": "w1", "m": "ma", "amt": 20, "pay": ["failed"], "status": ["failed"]}),
        ("checkmelt-failed", [{"op": "melt", "w": "w1", "m": "ma", "amt": 20, "pay": ["pending"]}], {"op": "checkmelt", "w": "w1", "status": ["failed"]}),
        ("checkmelt-succeeded", [{"op": "melt", "w": "w1", "m": "ma", "amt": 20, "pay": ["pending"]}], {"op": "checkmelt", "w": "w1", "status": ["succeeded"]}),
        ("mintswap", [], {"op": "mintswap", "w": "w1", "from": "ma", "to": "mb", "amt": 15}),
        ("send-after-rotation", [{"op": "rotate", "m": "ma", "fee": 100}], {"op": "send", "w": "w1", "m": "ma", "amt": 7}),
        ("receive-after-restore", [{"op": "restore", "w": "w1"}], {"op": "receive", "w": "w1", "tok": "t1"}),
    ]
    if tier() == "quick":
        keep = {"mint", "sendlocked", "receive", "melt-success", "melt-pending", "checkmelt-failed", "receive-swap-to-trusted"}
        sc = [s for s in sc if s[0] in keep]
    return sc


def history(hid, pre, victim, k):
    return {"id": hid, "mints": MINTS, "wallets": WALLETS,
            "ops": PREFIX + pre + [{"op": "crash", "victim": victim, "k": k}] + (SUFFIX if k > 0 else [])}


def check(prop="C19"):
    d = rundir("%s_wcrash_dry_%s" % (prop, tier()))
    sc = scenarios()
    dry = [history(i + 1, pre, victim, 0) for i, (_, pre, victim) in enumerate(sc)]
    trace, nh, nev = wallethist.run_whist(d, dry, name="dry")
    points = {}
    for line in open(trace):
        e = json.loads(line)
        if "points" in e["r"]:
            points[e["tr"]] = (e["r"]["points"], e["r"].get("pointnames", []), e["r"].get("ok"))
    hs, per = [], {}
    for i, (name, pre, victim) in enumerate(sc):
        if (i + 1) not in points:
            raise Infra("dry run of crash scenario %s reported no crash points" % name)
        n, names, ok = points[i + 1]
        if n == 0 or not ok:
            raise Infra("crash scenario %s: victim operation did not run (ok=%s, %d points)" % (name, ok, n))
        per[name] = {"crash_points": n, "calls": names}
        for k in range(1, n + 1):
            h = history(len(hs) + 1, pre, victim, k)
            h["scenario"] = name
            hs.append(h)
    return wallethist.check(prop, given=hs, collect=True, sub="_wcrash", level="fault_enumeration",
                            extra_cov={"crash_scenarios": per, "crash_executions": len(hs), "exhaustive": True,
                                       "crash_rule": "one execution per (victim operation, k): the wallet process is frozen before its k-th storage write, "
                                                     "HTTP request or HTTP reply (reads excluded: a crash before a read equals a crash after the call before it); "
                                                     "the number of such points is measured by a dry run"})


def counter_model():
    """Counter.tla: the counter / restore protocol with a process kill between any two steps, exhaustively (TLC).  The code's
    protocol must satisfy NoReuse, CounterPast, HeldIsLive, NoLongGap and RestoreExact; three defective variants must each be
    told apart (otherwise the model would be vacuous).  A failure here is a failure of the model, not a verdict on the code."""
    d = rundir("C19_countermodel_%s" % tier())
    sd = spec_copy(d)
    maxctr = 12 if tier() == "quick" else 16
    full = open(os.path.join(sd, "Counter.cfg")).read()
    res = {}
    for variant, expect in (("code", None), ("cumulative", "NoLongGap"), ("inc-first", "NoLongGap"), ("no-inc", "CounterPast")):
        cfg = "Counter_%s.cfg" % variant.replace("-", "")
        with open(os.path.join(sd, cfg), "w") as f:
            # the defective variants are found within seconds at the full bound; the code variant is the expensive one
            base = full.replace("MaxCtr = 16", "MaxCtr = %d" % maxctr) if variant == "code" else full
            f.write(base.replace('Variant = "code"', 'Variant = "%s"' % variant))
        rc, out, dt = tlc(sd, "Counter.tla", cfg, workers=8, timeout=1500, xmx="6g")
        m = re.search(r"(\d+) states generated, (\d+) distinct states found", out)
        viol = re.search(r"(Invariant|property) (\w+) is violated", out)
        if expect is None:
            if rc != 0 or viol or not m:
                raise Infra("Counter.tla (code variant) does not hold in the model:\n" + out[-1500:])
            res["code"] = {"states_generated": int(m.group(1)), "distinct_states": int(m.group(2)), "wall_s": round(dt, 1)}
        else:
            if not viol or viol.group(2) != expect:
                raise Infra("Counter.tla variant %s: expected %s to be violated:\n%s" % (variant, expect, out[-1500:]))
            res[variant] = "violates " + viol.group(2)
    return {"constants": "MaxCtr=%d Batch=2 Empty=2 MaxK=2 MaxRestores=3, at most 3 spent" % maxctr, "exhaustive": True,
            "invariants": ["NoReuse", "CounterPast", "HeldIsLive", "NoLongGap", "RestoreExact"], "variants": res}
