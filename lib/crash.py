"""C07: crash / storage-error enumeration.  For every victim operation the harness counts its n
storage/Lightning calls (dry run), then for k = 0..n-1 kills the process right before call k
(the calling goroutine is frozen for good, the store closed, the mint reloaded from the same
directory) and, separately, makes call k fail; an adversarial follow-up (replay, restore,
re-spend, polls) is run on the restarted mint.  TLC (MintTrace) validates the recorded traces:
the post-crash state must be explainable as all-or-nothing (MintJudge!CrashOutcomes) and every
follow-up step is judged against MintAPI."""
import json
import os
import re
import shutil
import time

from core import BIN, Infra, build_harness, goenv, monitor, run, rundir, save_replay, seed, spec_copy, split_known, tier, write_evidence
from minthist import load_events

FUND = [{"op": "mintquote", "amt": 13}, {"op": "settle", "q": "mq1"},
        {"op": "mint", "q": "mq1", "outs": [{"amt": 8}, {"amt": 4}, {"amt": 1}]}]
ALLB = ["b%d" % i for i in range(1, 12)]
PROBE = [{"op": "checkstate", "ys": ALLB}, {"op": "restore", "bs": ALLB}, {"op": "balances"}, {"op": "keysets"}]


def scn(name, prefix, victim, followup, fee=0, policy="pct1", errors=True):
    return {"name": name, "fee": fee, "policy": policy, "prefix": prefix, "victim": victim, "followup": PROBE + followup + PROBE,
            "errors": errors}


def scenarios():
    sw = lambda p, outs: {"op": "swap", "ins": [{"p": p}], "outs": [{"amt": a} for a in outs]}
    mq = lambda amt: {"op": "meltquote", "kind": "ext", "amt": amt}
    ml = lambda q, p, pay=None, status=None: dict({"op": "melt", "q": q, "ins": [{"p": p}]}, **({"pay": pay} if pay else {}),
                                                  **({"status": status} if status else {}))
    mint = lambda q, outs: {"op": "mint", "q": q, "outs": [{"amt": a} for a in outs]}
    pm = lambda q, st=None: dict({"op": "pollmelt", "q": q}, **({"status": st} if st else {}))
    quote2 = [{"op": "mintquote", "amt": 8}, {"op": "settle", "q": "mq2"}]
    s = []
    # swap: re-presenting the same request (same outputs), re-spending the inputs with fresh outputs
    s.append(scn("swap", FUND, sw("b1", [4, 4]),
                 [{"op": "swap", "ins": [{"p": "b1"}], "outs": [{"amt": 4, "b": "b4"}, {"amt": 4, "b": "b5"}]},
                  sw("b1", [8]), sw("b4", [4]), sw("b6", [8])]))
    s.append(scn("swap-fee", FUND, sw("b1", [4, 2, 1]), [sw("b1", [4, 2, 1]), sw("b4", [2, 1])], fee=1000))
    # mint: poll, mint again with the same and with fresh outputs
    s.append(scn("mint", FUND + quote2, mint("mq2", [8]),
                 [{"op": "pollmint", "q": "mq2"}, {"op": "mint", "q": "mq2", "outs": [{"amt": 8, "b": "b4"}]}, mint("mq2", [4, 4]),
                  mint("mq2", [2, 2, 4]), sw("b4", [8]), sw("b5", [4])]))
    s.append(scn("mint-unpolled", FUND + [{"op": "mintquote", "amt": 8}, {"op": "settle", "q": "mq2"}, {"op": "notify", "q": "mq2"}],
                 mint("mq2", [8]), [{"op": "pollmint", "q": "mq2"}, mint("mq2", [4, 4]), mint("mq2", [8])]))
    # melt with each Lightning outcome
    for pay, status, tag in ((None, None, "success"), (["pending"], None, "pending"), (["failed"], ["failed"], "failed"),
                             (["error"], ["succeeded"], "error-succeeded"), (["failed"], ["notfound"], "failed-notfound"),
                             (["error"], ["error"], "error-error")):
        s.append(scn("melt-" + tag, FUND + [mq(7)], ml("lq1", "b1", pay, status),
                     [pm("lq1"), {"op": "checkstate", "ys": ["b1"]}, sw("b1", [8]), ml("lq1", "b1"), pm("lq1"), ml("lq1", "b2")]))
    # internal settlement (melt pays a mint quote of the same mint)
    s.append(scn("melt-internal", FUND + [{"op": "mintquote", "amt": 5}, {"op": "meltquote", "kind": "int", "q": "mq2"}],
                 ml("lq1", "b1"), [pm("lq1"), {"op": "pollmint", "q": "mq2"}, mint("mq2", [4, 1]), sw("b1", [8]), mint("mq2", [4, 1])]))
    # resolution of a pending melt through a quote poll and through a state check
    pend = FUND + [mq(7), ml("lq1", "b1", ["pending"])]
    s.append(scn("pollmelt-success", pend, pm("lq1", ["succeeded"]), [pm("lq1"), sw("b1", [8]), pm("lq1")]))
    s.append(scn("pollmelt-failed", pend, pm("lq1", ["failed"]), [pm("lq1"), sw("b1", [8]), pm("lq1")]))
    s.append(scn("checkstate-success", pend, {"op": "checkstate", "ys": ["b1"], "status": ["succeeded"]}, [pm("lq1"), sw("b1", [8])]))
    # keyset rotation at run time and at start-up
    s.append(scn("rotate", FUND, {"op": "rotate", "fee": 100}, [sw("b1", [8]), {"op": "restart"}, sw("b2", [4])]))
    # a rotation of a mint that has rotated before (two, then three keysets stored): the recovery has to pick the right one
    s.append(scn("rotate-again", FUND + [{"op": "rotate", "fee": 100}, {"op": "mintquote", "amt": 4}, {"op": "settle", "q": "mq2"},
                                          {"op": "mint", "q": "mq2", "outs": [{"amt": 4}]}],
                 {"op": "rotate", "fee": 0},
                 [sw("b1", [8]), sw("b4", [2, 1]), {"op": "restart"}, sw("b2", [4]), {"op": "rotate", "fee": 100}, {"op": "keysets"}]))
    s.append(scn("restart-rotate", FUND, {"op": "restart", "rotate": True, "fee": 100}, [sw("b1", [8]), {"op": "restart"}, sw("b2", [4])]))
    return s


def finding_key(runinfo, ev, reason):
    how = "%s-before:%s" % (runinfo["mode"], runinfo["before"]) if runinfo["mode"] != "dry" else "nofault"
    return "%s|%s|%s:%s" % (runinfo["scenario"], how, ev, reason)


def fault_http(prop="C20", only=None):
    """C20, fault clause: every victim operation driven through the HTTP handler while its k-th storage / Lightning call fails
    (every k); TLC judges how the failure is reported (Http!FaultHttpTags): {detail, code} body, no text of the failing
    call's error.  Returns (coverage, violations)."""
    build_harness()
    d = rundir("%s_faulthttp_%s" % (prop, tier()))
    sd = spec_copy(d)
    scns = [dict(s, http=True, nocrash=True) for s in scenarios()]
    if only:
        scns = [s for s in scns if s["name"] in only]
    elif tier() == "quick":
        scns = [s for s in scns if s["name"] in ("swap", "mint", "melt-success", "melt-pending", "melt-internal", "pollmelt-failed", "melt-error-succeeded")]
    sin = os.path.join(d, "fault_scenarios.json")
    with open(sin, "w") as f:
        json.dump(scns, f)
    out = os.path.join(d, "fault")
    scratch = "/dev/shm/verif-fault-%d" % os.getpid() if os.path.isdir("/dev/shm") else os.path.join(d, "scratch")
    rc, txt = run([os.path.join(BIN, "vharness"), "crash", "-in", sin, "-out", out, "-scratch", scratch, "-seed", str(seed()),
                   "-workers", "14"], env=goenv(), timeout=3000)
    shutil.rmtree(scratch, ignore_errors=True)
    if rc != 0:
        raise Infra("fault driver failed (rc=%d):\n%s" % (rc, txt[-3000:]))
    trace = os.path.join(out, "crash.ndjson")
    runs = {r["tr"]: r for r in json.load(open(os.path.join(out, "runs.json")))}
    res = monitor(sd, trace, name="faultmon")
    evs = load_events(trace)
    if res["lines"] != len(evs):
        raise Infra("monitor consumed %d of %d events" % (res["lines"], len(evs)))
    found = {}
    for p, tr, i, reason in res["tags"]:
        if p != prop:
            continue          # consequences of the fault for the state belong to C07
        e = evs[(tr, i)]
        key = "%s-under-fault:%s" % (e["ev"], reason)
        found.setdefault(key, []).append((tr, i))
    unknown, known = split_known(prop, sorted(found))
    for k in known:
        print("KNOWN-FINDING: property=%s %s (%s)" % (prop, k["key"], k.get("what", "")))
    viol = []
    for key in unknown:
        tr, i = found[key][0]
        e = evs[(tr, i)]
        path = save_replay(prop, re.sub(r"[^A-Za-z0-9]+", "_", key)[:90],
                           {"property": prop, "kind": "fault-http", "key": key, "seed": seed(), "run": runs[tr], "occurrences": len(found[key]),
                            "scenario": [s for s in scns if s["name"] == runs[tr]["scenario"]][0],
                            "event": {"ev": e["ev"], "a": e["a"], "r": e["r"]}})
        print("VIOLATION property=%s replay=%s" % (prop, path))
        print("  finding: %s (%d occurrences)" % (key, len(found[key])))
        viol.append(key)
    faulted = [e for e in evs.values() if e["a"].get("fault")]
    refused = [e for e in faulted if e["r"].get("http", {}).get("status") == 400]
    return {"fault_executions": sum(1 for r in runs.values() if r["mode"] == "error"), "fault_scenarios": [s["name"] for s in scns],
            "operations_under_fault": len(faulted), "refusals_under_fault_inspected": len(refused),
            "sample_refusal_under_fault": ({"ev": refused[0]["ev"], "http": refused[0]["r"]["http"]} if refused else None),
            "events": len(evs), "tlc_states": res["tlc_states"], "known_findings_seen": [k["key"] for k in known]}, len(viol)


def check(prop="C07", only=None):
    t0 = time.time()
    build_harness()
    d = rundir("%s_%s" % (prop, tier()))
    sd = spec_copy(d)
    scns = scenarios()
    if only:
        scns = [s for s in scns if s["name"] in only]
    sin = os.path.join(d, "crash_scenarios.json")
    with open(sin, "w") as f:
        json.dump(scns, f)
    out = os.path.join(d, "crash")
    scratch = "/dev/shm/verif-crash-%d" % os.getpid() if os.path.isdir("/dev/shm") else os.path.join(d, "scratch")
    rc, txt = run([os.path.join(BIN, "vharness"), "crash", "-in", sin, "-out", out, "-scratch", scratch, "-seed", str(seed()),
                   "-workers", "14"], env=goenv(), timeout=3000)
    shutil.rmtree(scratch, ignore_errors=True)
    if rc != 0:
        raise Infra("crash driver failed (rc=%d):\n%s" % (rc, txt[-3000:]))
    trace = os.path.join(out, "crash.ndjson")
    runs = {r["tr"]: r for r in json.load(open(os.path.join(out, "runs.json")))}
    res = monitor(sd, trace)
    evs = load_events(trace)
    if res["lines"] != len(evs):
        raise Infra("monitor consumed %d of %d events" % (res["lines"], len(evs)))
    found = {}
    for p, tr, i, reason in res["tags"]:
        e = evs[(tr, i)]
        # every mismatch in a fault execution is a consequence of the fault: it belongs to C07
        key = finding_key(runs[tr], e["ev"], reason)
        found.setdefault(key, []).append((tr, i))
    # consolidate: report the first mismatch per execution (later ones are consequences)
    first = {}
    for key, occ in found.items():
        for tr, i in occ:
            if tr not in first or i < first[tr][1]:
                first[tr] = (key, i)
    keys = sorted({k for k, _ in first.values()})
    unknown, known = split_known(prop, keys)
    for k in known:
        print("KNOWN-FINDING: property=%s %s (%s)" % (prop, k["key"], k.get("what", "")))
    viol = []
    for key in unknown:
        tr = [t for t, (k, _) in first.items() if k == key][0]
        lines = [evs[k] for k in sorted(evs) if k[0] == tr]
        path = save_replay(prop, re.sub(r"[^A-Za-z0-9]+", "_", key)[:90],
                           {"property": prop, "kind": "crash", "key": key, "seed": seed(), "run": runs[tr],
                            "scenario": [s for s in scns if s["name"] == runs[tr]["scenario"]][0],
                            "events": [{"ev": e["ev"], "a": e["a"] if e["ev"] == "crash" else None, "r": e["r"]} for e in lines][-10:]})
        print("VIOLATION property=%s replay=%s" % (prop, path))
        print("  finding: %s" % key)
        viol.append(key)
    modes = {}
    for r in runs.values():
        modes[r["mode"]] = modes.get(r["mode"], 0) + 1
    dry = [r for r in runs.values() if r["mode"] == "dry"]
    # layer 2: the crash windows MintSteps predicts (exhaustive TLC run with a crash between any two calls) against the ones
    # observed on the real mint, and the victims' call sequences validated against MintSteps
    layer2 = None
    if not only:
        import steps
        try:
            layer2 = steps.crash_windows(sd, keys)
            layer2["victim_call_sequences"] = steps.dry_conformance(sd, scns, dry)
            layer2["keyset_model"] = steps.keyset_model(sd)
            layer2["keyset_model"]["rotation_victims"] = steps.rotation_calls_match(dry)
        except Infra as ex:
            if not viol:
                raise
            print("NOTE: layer 2 analysis did not complete: %s" % str(ex)[:300])      # the verdict from the real mint stands
            layer2 = {"error": str(ex)[:500], "agree": True}
        if not layer2["agree"]:
            print("NOTE: crash windows of MintSteps and of the real mint differ (model drift or a changed window; not a verdict): %s" % json.dumps(
                {k: {"model": sorted(v["model"]), "real_mint": sorted(v["real_mint"])} for k, v in layer2["per_request_kind"].items() if not v["agree"]}))
    cov = {
        "layer2_crash_windows": layer2,
        "evaluations": len(runs), "distinct_nontrivial": len(runs) - len(dry),
        "rule": "one execution per (victim operation, fault kind in {crash, storage/LN error}, call index k); the call sequence of each "
                "victim is measured by a dry run; distinct_nontrivial counts the fault executions (dry runs excluded)",
        "samples": [{"scenario": scns[0]["name"], "victim": scns[0]["victim"], "calls": dry[0]["calls"]},
                    {"scenario": scns[min(4, len(scns) - 1)]["name"], "victim": scns[min(4, len(scns) - 1)]["victim"],
                     "calls": dry[min(4, len(dry) - 1)]["calls"]}],
        "exhaustive": True, "executions_by_mode": modes,
        "victims": {r["scenario"]: r["calls"] for r in dry},
        "states": res["tlc_states"], "transitions": res["tlc_generated"], "traces_validated_against_impl": len(runs),
        "executions_with_findings": len(first), "known_findings_seen": [k["key"] for k in known],
    }
    write_evidence(prop, "fault_enumeration", cov, time.time() - t0, len(viol),
                   ["a crash happens between two storage/Lightning calls, never inside one (SQLite per-call atomicity and durability)",
                    "the Lightning backend's own state survives the mint's crash"])
    return 1 if viol else 0
