"""C05: every Lightning answer script of length <= 4 x resolution path, enumerated by TLC (C05Scripts.tla), replayed on the real mint."""
import json
import os

import time

import minthist
from core import rundir, spec_copy, tier, write_evidence
from tables import tlc_assume


def history(hid, c):
    n_in_melt = 1 if (c["pay"] in ("failed", "error") and c["status"]) else 0
    ops = [{"op": "mintquote", "amt": 13}, {"op": "settle", "q": "mq1"},
           {"op": "mint", "q": "mq1", "outs": [{"amt": 8}, {"amt": 4, "lock": "K1"}, {"amt": 1}]},
           {"op": "meltquote", "kind": "ext", "amt": 9},
           {"op": "melt", "q": "lq1", "ins": [{"p": "b1"}, {"p": "b2"}], "pay": [c["pay"]], "status": c["status"][:n_in_melt]}]
    for st, via in zip(c["status"][n_in_melt:], c["via"]):
        if via == "poll":
            ops.append({"op": "pollmelt", "q": "lq1", "status": [st]})
        else:
            ops.append({"op": "checkstate", "ys": ["b2", "b1", "unknown"], "status": [st]})
        # while the quote is unresolved its inputs must be unusable elsewhere; once released they must be usable
        ops.append({"op": "swap", "ins": [{"p": "b3"}], "outs": [{"amt": 1}]} if False else {"op": "checkstate", "ys": ["b1", "b2"]})
    ops += [{"op": "swap", "ins": [{"p": "b1"}], "outs": [{"amt": 8}]},
            {"op": "melt", "q": "lq1", "ins": [{"p": "b1"}, {"p": "b2"}]},
            {"op": "pollmelt", "q": "lq1"}, {"op": "checkstate", "ys": ["b1", "b2", "b4"]}]
    return {"id": hid, "fee": 0, "policy": "min1", "probe": "passive", "ops": ops}


def check(prop="C05"):
    d = rundir("%s_scripts_%s" % (prop, tier()))
    sd = spec_copy(d)
    f = os.path.join(d, "scripts.ndjson")
    out, dt = tlc_assume(sd, "C05Scripts.tla", {"VERIF_OUT": f})
    cases = [json.loads(l) for l in open(f)]
    histories = [history(i + 1, c) for i, c in enumerate(cases)]
    t0 = time.time()
    cov, v = minthist.check(prop, given=histories, level="fault_enumeration", collect=True, sub="_enum",
                          rule="one history per element of C05Scripts!Scripts (pay answer x every status sequence of length <= 3 x poll/check for "
                               "every lookup after the melt call), enumerated completely by TLC; each history melts two proofs (one P2PK-locked), "
                               "walks the script, then tries to swap an input and to melt again; distinct_nontrivial counts distinct "
                               "(operation, request facts, accepted?) triples",
                          extra_cov={"scripts": len(cases), "exhaustive": True, "sample_scripts": cases[:3] + cases[-2:]},
                          assumptions=["the Lightning model answers exactly what the script says; an unscripted lookup answers from the model's truth",
                                       "SQLite per-call atomicity"])
    # plus TLC-generated random histories in which restarts, other quotes and internal settlement interleave with the scripts
    cov2, v2 = minthist.check(prop, collect=True, probe="passive",
                              profile=["mintquote", "settle", "mint", "swap", "meltquote", "melt", "pollmelt", "checkstate", "restart"])
    for k in ("states", "transitions", "traces_validated_against_impl", "evaluations", "distinct_nontrivial"):
        cov[k] = cov[k] + cov2[k]
    cov["samples"] = cov["samples"] + cov2["samples"]
    cov["known_findings_seen"] = cov["known_findings_seen"] + cov2["known_findings_seen"]
    cov["random_histories"] = {k: cov2[k] for k in ("events_by_kind", "accepted", "rejected", "generator_constants", "tags_of_other_properties") if k in cov2}
    write_evidence(prop, "fault_enumeration", cov, time.time() - t0, v + v2, ASSUME)
    return 1 if (v + v2) else 0


ASSUME = ["the Lightning model answers exactly what the script says; an unscripted lookup answers from the model's truth",
          "SQLite per-call atomicity", "scripts longer than 4 answers are covered only by the random histories"]
