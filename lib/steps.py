"""Layer 2: MintSteps.tla, the mint as implemented (one action per storage / Lightning call, the two mutexes, the in-progress
guard), (1) model-checked exhaustively over all interleavings of scenario requests, every Lightning outcome and a crash between
any two calls; (2) bound to the code: every call sequence the schedule explorer records on the real mint is validated against it
(MintStepsTrace).  A model counterexample is never a verdict: it is a schedule to be replayed on the real mint (conc.py fixed
schedules); only what the real mint does is reported."""
import json
import os
import re
import shutil
import time
from concurrent.futures import ThreadPoolExecutor

from core import Infra, tier, tlc


def P(i, kind, q="", ins=(), outs=(), phase="conc"):
    return {"id": "p%d" % i, "kind": kind, "q": q, "ins": list(ins), "outs": list(outs), "phase": phase}


def scn(name, procs, secrets=("s1",), lq=(("lq1", "UNPAID", "none", ""),), mq=(), used=(), pend=(), signed=(), mutex=True,
        crash=False, faults=False, ln="truth", releasecheck=True, pollguard=True, pollnotfound=False, checklocked=True, guardfrom="m6", expect="hold"):
    return {"name": name, "secrets": list(secrets), "used": list(used), "pend": [{"s": s, "q": q} for s, q in pend],
            "signed": list(signed), "lq": [{"q": q, "st": st, "pay": pay, "internal": i} for q, st, pay, i in lq],
            "mq": [{"q": q, "st": st, "settled": se} for q, st, se in mq], "mutex": mutex, "crash": crash, "faults": faults, "ln": ln,
            "releasecheck": releasecheck, "pollguard": pollguard, "pollnotfound": pollnotfound, "checklocked": checklocked, "guardfrom": guardfrom, "procs": procs, "expect": expect}


LQ2 = (("lq1", "UNPAID", "none", ""), ("lq2", "UNPAID", "none", ""))
PENDQ = (("lq1", "PENDING", "inflight", ""),)


def design_scenarios():
    """Scenarios for the exhaustive run.  expect = hold: every invariant must hold; expect = fail: a defective variant of the
    implementation (an earlier state of /repo) that TLC must reject - the model can tell right from wrong."""
    sw = lambda i, outs=("o1",): P(i, "swap", ins=["s1"], outs=outs)
    s = [
        scn("swap-swap", [sw(1), sw(2, ("o2",))]),
        scn("swap-melt", [sw(1), P(2, "melt", "lq1", ["s1"])]),
        scn("melt-melt-samequote", [P(1, "melt", "lq1", ["s1"]), P(2, "melt", "lq1", ["s1"])]),
        scn("melt-melt-otherquote", [P(1, "melt", "lq1", ["s1"]), P(2, "melt", "lq2", ["s1"])], lq=LQ2),
        scn("swap-pollmelt", [sw(1), P(2, "pollmelt", "lq1")], lq=PENDQ, pend=(("s1", "lq1"),)),
        scn("swap-checkstate", [sw(1), P(2, "checkstate", ins=["s1"])], lq=PENDQ, pend=(("s1", "lq1"),)),
        scn("melt-pollmelt-swap", [P(1, "melt", "lq1", ["s1"]), P(2, "pollmelt", "lq1"), sw(3)]),
        scn("melt-checkstate-swap", [P(1, "melt", "lq1", ["s1"]), P(2, "checkstate", ins=["s1"]), sw(3)]),
        scn("melt-checkstate-checkstate", [P(1, "melt", "lq1", ["s1"]), P(2, "checkstate", ins=["s1"]), P(3, "checkstate", ins=["s1"])]),
        scn("pollmelt-checkstate-swap", [P(1, "pollmelt", "lq1"), P(2, "checkstate", ins=["s1"]), sw(3)], lq=PENDQ, pend=(("s1", "lq1"),)),
        # four requests: beyond what the schedule explorer enumerates on the real mint
        scn("melt-poll-melt-swap", [P(1, "melt", "lq1", ["s1"]), P(2, "pollmelt", "lq1"), P(3, "melt", "lq1", ["s1"]), sw(4)]),
        scn("melt-poll-melt2-swap", [P(1, "melt", "lq1", ["s1"]), P(2, "pollmelt", "lq1"), P(3, "melt", "lq2", ["s1"]), sw(4)], lq=LQ2),
        scn("poll-poll-remelt-swap", [P(1, "pollmelt", "lq1"), P(2, "pollmelt", "lq1"), P(3, "melt", "lq1", ["s1"]), sw(4)],
            lq=PENDQ, pend=(("s1", "lq1"),)),
        scn("mint-mint", [P(1, "mint", "mq1", outs=["o1"]), P(2, "mint", "mq1", outs=["o2"])], mq=(("mq1", "UNPAID", True),), lq=()),
        scn("mint-mint-notify", [P(1, "mint", "mq1", outs=["o1"]), P(2, "mint", "mq1", outs=["o2"]), P(3, "notify", "mq1")],
            mq=(("mq1", "UNPAID", True),), lq=()),
        scn("mint-poll-notify", [P(1, "mint", "mq1", outs=["o1"]), P(2, "pollmint", "mq1"), P(3, "notify", "mq1")],
            mq=(("mq1", "UNPAID", True),), lq=()),
        # observed, outside every listed quantifier: a mint request and a swap that share an output check "already signed" under
        # different mutexes; the swap can then fail on the signature key after it has stored its inputs as spent (the client that
        # submitted one blinded message twice loses its own inputs; no inflation, no double spend).  Reported, not failed on.
        scn("mint-sameoutput-swap", [P(1, "mint", "mq1", outs=["o1"]), sw(2, ("o1", "o2"))], mq=(("mq1", "PAID", True),), lq=(),
            expect="observed"),
        scn("mint-meltinternal-mint", [P(1, "mint", "mq1", outs=["o1"]), P(2, "melt", "lq1", ["s1"]), P(3, "mint", "mq1", outs=["o2"])],
            mq=(("mq1", "UNPAID", True),), lq=(("lq1", "UNPAID", "none", "mq1"),)),
        # five requests, two secrets
        scn("melt2-swap-swap-poll", [P(1, "melt", "lq1", ["s1", "s2"]), P(2, "swap", ins=["s1"], outs=["o1"]), P(3, "swap", ins=["s2"], outs=["o2"]),
                                     P(4, "pollmelt", "lq1")], secrets=("s1", "s2")),
        scn("melt-melt-poll-check-swap", [P(1, "melt", "lq1", ["s1"]), P(2, "melt", "lq1", ["s1"]), P(3, "pollmelt", "lq1"),
                                          P(4, "checkstate", ins=["s1"]), sw(5)]),
        scn("melt-melt2-poll-poll2-swap", [P(1, "melt", "lq1", ["s1"]), P(2, "melt", "lq2", ["s1"]), P(3, "pollmelt", "lq1"),
                                           P(4, "pollmelt", "lq2"), sw(5)], lq=LQ2),
        scn("mint3-notify-poll", [P(1, "mint", "mq1", outs=["o1"]), P(2, "mint", "mq1", outs=["o2"]), P(3, "mint", "mq1", outs=["o3"]),
                                  P(4, "notify", "mq1"), P(5, "pollmint", "mq1")], mq=(("mq1", "UNPAID", True),), lq=()),
        scn("meltinternal-mint-mint-poll-notify", [P(1, "melt", "lq1", ["s1"]), P(2, "mint", "mq1", outs=["o1"]), P(3, "mint", "mq1", outs=["o2"]),
                                                   P(4, "pollmint", "mq1"), P(5, "notify", "mq1")],
            mq=(("mq1", "UNPAID", True),), lq=(("lq1", "UNPAID", "none", "mq1"),)),
    ]
    if tier() == "thorough":
        s += [
            scn("melt3-poll2-swap2", [P(1, "melt", "lq1", ["s1"]), P(2, "melt", "lq1", ["s1", "s2"]), P(3, "melt", "lq2", ["s2"]), P(4, "pollmelt", "lq1"),
                                      P(5, "pollmelt", "lq2"), P(6, "swap", ins=["s1"], outs=["o1"]), P(7, "swap", ins=["s2"], outs=["o2"])],
                secrets=("s1", "s2"), lq=LQ2),
            scn("melt-melt-poll-poll-check-swap", [P(1, "melt", "lq1", ["s1"]), P(2, "melt", "lq1", ["s1"]), P(3, "pollmelt", "lq1"), P(4, "pollmelt", "lq1"),
                                                   P(5, "checkstate", ins=["s1"]), sw(6)]),
        ]
    s += [
        # defective variants
        scn("swap-melt/no-mutex", [sw(1), P(2, "melt", "lq1", ["s1"])], mutex=False, expect="fail"),
        scn("mint-mint/no-mutex", [P(1, "mint", "mq1", outs=["o1"]), P(2, "mint", "mq1", outs=["o2"])], mq=(("mq1", "UNPAID", True),),
            lq=(), mutex=False, expect="fail"),
        # the by-quote check of d621dd9 is redundant behind the in-progress guard of 68c3b64 (its reverse seed is obsolete) ...
        scn("melt-poll-melt2-swap/no-release-check-behind-the-guard", [P(1, "melt", "lq1", ["s1"]), P(2, "pollmelt", "lq1"), P(3, "melt", "lq2", ["s1"]), sw(4)],
            lq=LQ2, releasecheck=False),
        # ... and needed without it
        scn("melt-poll-melt2-swap/no-release-check", [P(1, "melt", "lq1", ["s1"]), P(2, "pollmelt", "lq1"), P(3, "melt", "lq2", ["s1"]), sw(4)],
            lq=LQ2, releasecheck=False, pollguard=False, expect="fail"),
        # a poll that releases on "no such payment": harmless behind the in-progress guard, a double spend without it (this is
        # the seeded change C01-poll-notfound-releases-pending, which fix 68c3b64 made obsolete)
        scn("melt-pollmelt-swap/poll-notfound-releases", [P(1, "melt", "lq1", ["s1"]), P(2, "pollmelt", "lq1"), sw(3)], pollnotfound=True),
        scn("melt-pollmelt-swap/poll-notfound-releases/no-poll-guard", [P(1, "melt", "lq1", ["s1"]), P(2, "pollmelt", "lq1"), sw(3)],
            pollnotfound=True, pollguard=False, expect="fail"),
        # a state check that reads the pending and the spent table without the lock reports a secret UNSPENT while a melt is
        # moving it from one to the other
        scn("melt-checkstate/check-unlocked", [P(1, "melt", "lq1", ["s1"]), P(2, "checkstate", ins=["s1"])], checklocked=False, expect="fail"),
        scn("pollmelt-checkstate/check-unlocked", [P(1, "pollmelt", "lq1"), P(2, "checkstate", ins=["s1"])], lq=PENDQ, pend=(("s1", "lq1"),),
            checklocked=False, expect="fail"),
        # a retry of a quote whose first payment attempt failed (the backend still answers FAILED until the new attempt reaches it),
        # a poll and a swap: holds with the guard registered under the PENDING write, fails when it is registered one storage call later
        scn("remelt-pollmelt-swap", [P(1, "melt", "lq1", ["s1"]), P(2, "pollmelt", "lq1"), sw(3)], lq=(("lq1", "UNPAID", "failed", ""),)),
        scn("remelt-checkstate-swap", [P(1, "melt", "lq1", ["s1"]), P(2, "checkstate", ins=["s1"]), sw(3)], lq=(("lq1", "UNPAID", "failed", ""),)),
        scn("remelt-pollmelt-swap/guard-registered-late", [P(1, "melt", "lq1", ["s1"]), P(2, "pollmelt", "lq1"), sw(3)],
            lq=(("lq1", "UNPAID", "failed", ""),), guardfrom="m7", expect="fail"),
        scn("melt-poll-melt-swap/no-poll-guard", [P(1, "melt", "lq1", ["s1"]), P(2, "pollmelt", "lq1"), P(3, "melt", "lq1", ["s1"]), sw(4)],
            pollguard=False, expect="fail"),
    ]
    return s


def crash_scenarios():
    """One request, a crash between any two of its calls, then (on the restarted mint) a poll of the quote and a state check."""
    post = lambda i, kind, **kw: P(i, kind, phase="post", **kw)
    return [
        scn("crash/swap", [P(1, "swap", ins=["s1"], outs=["o1"]), post(2, "checkstate", ins=["s1"])], crash=True, lq=()),
        scn("crash/melt", [P(1, "melt", "lq1", ["s1"]), post(2, "pollmelt", q="lq1"), post(3, "checkstate", ins=["s1"])], crash=True),
        scn("crash/melt-internal", [P(1, "melt", "lq1", ["s1"]), post(2, "pollmelt", q="lq1"), post(3, "pollmint", q="mq1")], crash=True,
            mq=(("mq1", "UNPAID", False),), lq=(("lq1", "UNPAID", "none", "mq1"),)),
        scn("crash/pollmelt", [P(1, "pollmelt", "lq1"), post(2, "pollmelt", q="lq1"), post(3, "checkstate", ins=["s1"])], crash=True,
            lq=PENDQ, pend=(("s1", "lq1"),)),
        scn("crash/melt-poll-swap", [P(1, "melt", "lq1", ["s1"]), P(2, "pollmelt", "lq1"), P(3, "swap", ins=["s1"], outs=["o1"]),
                                     post(4, "pollmelt", q="lq1"), post(5, "checkstate", ins=["s1"])], crash=True),
        scn("crash/mint", [P(1, "mint", "mq1", outs=["o1"]), post(2, "pollmint", q="mq1"), post(3, "mint", q="mq1", outs=["o2"])], crash=True,
            mq=(("mq1", "UNPAID", True),), lq=()),
    ]


CFG = """SPECIFICATION Spec
CHECK_DEADLOCK FALSE
VIEW View
INVARIANT Inv_NoDoubleUse
INVARIANT Inv_IssueOnce
INVARIANT Inv_CheckTruth
INVARIANT Inv_Quiet
INVARIANT Inv_CrashReport
INVARIANT Inv_FaultReport
"""


def _sd(sd, tag):
    d = sd + "_" + re.sub(r"[^A-Za-z0-9]+", "_", tag)
    shutil.rmtree(d, ignore_errors=True)
    shutil.copytree(sd, d)
    return d


def counterexample(out):
    """The schedule <<proc, call>> of a TLC counterexample (from the `last` variable)."""
    steps = re.findall(r'/\\ last = <<"([^"]*)", "([^"]*)", "([^"]*)">>', out)
    return ["%s:%s%s" % (p, c, ("=" + a) if a else "") for p, c, a in steps if p]


def run_design(sd, s):
    d = _sd(sd, "steps_" + s["name"])
    with open(os.path.join(d, "MintStepsRun.cfg"), "w") as f:
        f.write(CFG)
    sf = os.path.join(d, "scn.json")
    with open(sf, "w") as f:
        json.dump(s, f)
    rc, out, dt = tlc(d, "MintSteps.tla", "MintStepsRun.cfg", env={"VERIF_SCN": sf}, workers=2, timeout=900, xmx="2g")
    m = re.search(r"(\d+) states generated, (\d+) distinct states found", out)
    r = {"scenario": s["name"], "expect": s["expect"], "procs": ["%s:%s" % (p["id"], p["kind"]) for p in s["procs"]],
         "generated": int(m.group(1)) if m else 0, "distinct": int(m.group(2)) if m else 0, "wall_s": round(dt, 1)}
    viol = re.search(r"Invariant (\w+) is violated", out)
    windows = sorted(set(re.findall(r'<<"WINDOW", "(.*?)", "(.*?)">>', out)))
    r["crash_windows"] = [{"at": json.loads(a.replace('\\"', '"')), "damage": json.loads(b.replace('\\"', '"'))} for a, b in windows]
    fw = sorted(set(re.findall(r'<<"FAULTWINDOW", "(.*?)", "(.*?)">>', out)))
    r["fault_windows"] = [{"at": json.loads(a.replace('\\"', '"')), "damage": json.loads(b.replace('\\"', '"'))} for a, b in fw]
    if viol:
        r["violated"] = viol.group(1)
        r["schedule"] = counterexample(out)
    elif "Model checking completed. No error has been found." not in out:
        shutil.rmtree(d, ignore_errors=True)
        raise Infra("TLC failed on MintSteps scenario %s:\n%s" % (s["name"], out[-2500:]))
    shutil.rmtree(d, ignore_errors=True)
    return r


def design_check(sd, with_crash=True):
    """Exhaustive TLC runs.  Returns the evidence block; raises Infra when the model disagrees with what is expected of it (a
    scenario of the current implementation violated - to be replayed on the real mint before anything is claimed - or a
    defective variant accepted - the model has become vacuous)."""
    t0 = time.time()
    scns = design_scenarios() + (crash_scenarios() if with_crash else [])
    with ThreadPoolExecutor(max_workers=6) as pool:
        res = list(pool.map(lambda s: run_design(sd, s), scns))
    bad = []
    for r in res:
        if r["expect"] == "hold" and "violated" in r:
            bad.append("MintSteps scenario %s violates %s; schedule to replay on the real mint: %s" % (r["scenario"], r["violated"], r["schedule"]))
        if r["expect"] in ("fail", "observed") and "violated" not in r:
            bad.append("defective variant %s was accepted by the model (vacuous?)" % r["scenario"])
    if bad:
        raise Infra("\n".join(bad))
    return {"scenarios": res, "states_generated": sum(r["generated"] for r in res), "distinct_states": sum(r["distinct"] for r in res),
            "defective_variants_rejected": [r["scenario"] + " -> " + r["violated"] for r in res if r["expect"] == "fail"],
            "weaknesses_outside_the_listed_properties": [{"scenario": r["scenario"], "violated": r["violated"], "schedule": r["schedule"]}
                                                         for r in res if r["expect"] == "observed"],
            "crash_windows_in_model": {r["scenario"]: r["crash_windows"] for r in res if r["scenario"].startswith("crash/")},
            "wall_s": round(time.time() - t0, 1)}


# ---- conformance: explorer schedules of the real mint validated against MintSteps ----

def _state_after_prefix(prefix):
    """Tables after the sequential prefix of an explorer scenario, in MintSteps terms (b<i> <-> s<i>)."""
    st = {"mq": {}, "lq": {}, "signed": [], "used": [], "pend": [], "secrets": [], "nmq": 0, "nlq": 0, "nout": 0}
    for op in prefix:
        k = op["op"]
        if k == "mintquote":
            st["nmq"] += 1
            st["mq"]["mq%d" % st["nmq"]] = {"st": "UNPAID", "settled": False, "lock": op.get("lock", "")}
        elif k == "settle":
            st["mq"][op["q"]]["settled"] = True
        elif k == "pollmint":
            if st["mq"][op["q"]]["settled"] and st["mq"][op["q"]]["st"] == "UNPAID":
                st["mq"][op["q"]]["st"] = "PAID"
        elif k == "mint":
            st["mq"][op["q"]]["st"] = "ISSUED"
            for _ in op["outs"]:
                st["nout"] += 1
                st["secrets"].append("s%d" % st["nout"])
                st["signed"].append("b%d" % st["nout"])
        elif k == "meltquote":
            st["nlq"] += 1
            st["lq"]["lq%d" % st["nlq"]] = {"st": "UNPAID", "pay": "none", "internal": op.get("q", "") if op.get("kind") == "int" else ""}
        elif k == "melt":
            pay = (op.get("pay") or ["success"])[0]
            if pay == "failed" and (op.get("status") or [""])[0] in ("failed", "notfound"):
                st["lq"][op["q"]].update(st="UNPAID", pay="failed")      # a failed attempt: released again
                continue
            if pay != "pending":
                return None
            st["lq"][op["q"]].update(st="PENDING", pay="inflight")
            for i in op["ins"]:
                st["pend"].append((i["p"].replace("b", "s"), op["q"]))
        else:
            return None
    return st


def to_steps_scenario(es):
    """An explorer scenario (conc.py) as a MintSteps scenario, or None where the model does not cover it."""
    st = _state_after_prefix(es["prefix"])
    if st is None:
        return None
    procs = []
    nout = st["nout"]
    for i, op in enumerate(es["conc"], 1):
        k = op["op"]
        if k == "swap":
            if any(x.get("var") for x in op["ins"]):
                return None
            outs = []
            for _ in op["outs"]:
                nout += 1
                outs.append("b%d" % nout)
            procs.append(P(i, "swap", ins=[x["p"].replace("b", "s") for x in op["ins"]], outs=outs))
        elif k == "melt":
            procs.append(P(i, "melt", op["q"], [x["p"].replace("b", "s") for x in op["ins"]]))
        elif k == "pollmelt":
            procs.append(P(i, "pollmelt", op["q"]))
        elif k == "checkstate":
            procs.append(P(i, "checkstate", ins=[y.replace("b", "s") for y in op["ys"]]))
        elif k == "mint":
            if op.get("sig"):
                return None
            outs = []
            for _ in op["outs"]:
                nout += 1
                outs.append("b%d" % nout)
            if sum(o["amt"] for o in op["outs"]) > 8 or st["mq"][op["q"]]["lock"]:
                return None
            procs.append(P(i, "mint", op["q"], outs=outs))
        elif k == "pollmint":
            procs.append(P(i, "pollmint", op["q"]))
        elif k == "notify":
            procs.append(P(i, "notify", op["q"]))
        else:
            return None
    return scn(es["name"], procs, secrets=st["secrets"], lq=[(q, v["st"], v["pay"], v["internal"]) for q, v in st["lq"].items()],
               mq=[(q, v["st"], v["settled"]) for q, v in st["mq"].items()], used=st["used"], pend=st["pend"], signed=st["signed"], ln="any")


def _reply(e):
    r = e["r"]
    if not r.get("ok"):
        return "err"
    if e["ev"] in ("melt", "pollmelt", "pollmint") and r.get("st"):
        return "ok:" + r["st"]
    return "ok"


def conformance(sd, scns, idx, shard_execs):
    """scns: explorer scenarios; idx: explorer index (tr, scenario, schedule); shard_execs: {tr: events}.  One TLC run per
    scenario, every recorded execution an initial state."""
    t0 = time.time()
    byname = {}
    for i in idx["index"]:
        byname.setdefault(i["scenario"], []).append(i)
    jobs, skipped = [], []
    for es in scns:
        ms = to_steps_scenario(es)
        if ms is None or es["name"] not in byname:
            skipped.append(es["name"])
            continue
        notify = [p["id"] for p in ms["procs"] if p["kind"] == "notify"]
        lines = []
        for i in byname[es["name"]]:
            sched = []
            for lab in i["schedule"]:
                p, c = lab.split(":", 1)
                if c.endswith(":answer"):
                    continue
                if p.startswith("n") and c == "env:notify":
                    p = "p" + p[1:]
                elif p.startswith("bg"):
                    if not notify:
                        continue
                    p = notify[0]
                sched.append({"p": p, "c": c})
            res = {p["id"]: "*" for p in ms["procs"]}
            for e in shard_execs.get(i["tr"], []):
                if e.get("proc") and e["proc"] in res:
                    res[e["proc"]] = _reply(e)
            lines.append({"tr": i["tr"], "sched": sched, "res": res})
        jobs.append((es["name"], ms, lines))

    def one(job):
        name, ms, lines = job
        d = _sd(sd, "conf_" + name)
        sf, ef, of = os.path.join(d, "scn.json"), os.path.join(d, "execs.ndjson"), os.path.join(d, "conf.json")
        with open(sf, "w") as f:
            json.dump(ms, f)
        with open(ef, "w") as f:
            for ln in lines:
                f.write(json.dumps(ln) + "\n")
        rc, out, dt = tlc(d, "MintStepsTrace.tla", "MintStepsTrace.cfg", env={"VERIF_SCN": sf, "VERIF_EXECS": ef, "VERIF_TAGS": of},
                          workers=1, deque=True, timeout=900, xmx="2g")
        if rc != 0 or not os.path.exists(of):
            shutil.rmtree(d, ignore_errors=True)
            raise Infra("TLC conformance run failed on %s (rc=%d):\n%s" % (name, rc, out[-2500:]))
        with open(of) as f:
            r = json.loads(f.readline())
        shutil.rmtree(d, ignore_errors=True)
        acc = set(r["accepted"])
        drift = []
        for k, ln in enumerate(lines, 1):
            if k not in acc:
                m = r["matched"][k - 1]
                m = 0 if m >= 1000000 else m
                nxt = ln["sched"][m] if m < len(ln["sched"]) else {"p": "-", "c": "replies differ: %s" % ln["res"]}
                drift.append({"tr": ln["tr"], "matched_steps": m, "of": len(ln["sched"]), "first_unmatched": "%s:%s" % (nxt["p"], nxt["c"])})
        return {"scenario": name, "executions": len(lines), "conform": len(acc), "drift": drift[:5], "drift_n": len(drift)}

    with ThreadPoolExecutor(max_workers=6) as pool:
        res = list(pool.map(one, jobs))
    # the binding demonstrated on every run: one recorded call removed from one execution, one reply flipped in another - both
    # must be rejected, otherwise the trace spec constrains nothing
    selftest = None
    drifting = {r["scenario"]: {x["tr"] for x in r["drift"]} for r in res}
    for name, ms, all_lines in jobs:
        if [r for r in res if r["scenario"] == name and r["drift_n"] > len(r["drift"])]:
            continue      # not every drifting execution of this scenario is listed: do not pick from it
        lines = [ln for ln in all_lines if ln["tr"] not in drifting.get(name, set())]     # executions that conform as recorded
        if len(lines) >= 2 and len(lines[0]["sched"]) > 3:
            a = json.loads(json.dumps(lines[0]))
            del a["sched"][2]
            b = json.loads(json.dumps(lines[1]))
            flipped = False
            for p, r in b["res"].items():
                if r.startswith("ok") or r.startswith("err"):
                    b["res"][p] = "err" if r.startswith("ok") else "ok"
                    flipped = True
                    break
            r = one((name + "_selftest", ms, [a, b] if flipped else [a]))
            selftest = {"scenario": name, "corrupted_executions": r["executions"], "rejected": r["drift_n"]}
            if r["conform"] != 0:
                raise Infra("conformance self-test: a corrupted call sequence of %s was accepted by MintStepsTrace" % name)
            break
    return {"binding_selftest": selftest, "per_scenario": res, "executions": sum(r["executions"] for r in res), "conform": sum(r["conform"] for r in res),
            "drift": sum(r["drift_n"] for r in res), "not_modelled": skipped, "wall_s": round(time.time() - t0, 1),
            "note": "drift = a call sequence of the real mint that MintSteps cannot take; informational (the verdict of every execution "
                    "comes from MintAccept), but while drift is 0 the exhaustive MintSteps result covers what the code does in these scenarios"}


# ---- crash windows: the model's against the real mint's ----

# the call a request is about to make at each program counter (a crash "at pc" = the process died before that call)
PC_CALL = {
    "s1": "db:GetPendingProofs", "s2": "db:GetProofsUsed", "s3": "db:GetBlindSignatures", "s4": "db:SaveProofs", "s5": "db:SaveBlindSignatures",
    "m1": "db:GetMeltQuote", "m2": "db:GetPendingProofs", "m3": "db:GetProofsUsed", "m4": "db:AddPendingProofs", "m5": "db:UpdateMeltQuote",
    "m6": "db:GetMintQuoteByPaymentHash", "m7": "ln:SendPayment", "m8": "ln:OutgoingPaymentStatus", "ms1": "db:RemovePendingProofs",
    "ms2": "db:SaveProofs", "ms3": "db:UpdateMeltQuote", "r1": "db:GetPendingProofsByQuote", "r2": "db:UpdateMeltQuote",
    "r3": "db:RemovePendingProofs", "i1": "ln:InvoiceStatus", "i2": "db:UpdateMeltQuote", "i3": "db:UpdateMintQuoteState",
    "g1": "db:GetMeltQuote", "g2": "ln:OutgoingPaymentStatus", "g3": "db:GetPendingProofsByQuote", "g4": "db:RemovePendingProofs",
    "g5": "db:SaveProofs", "g5b": "db:UpdateMeltQuote", "g6": "db:UpdateMeltQuote", "g7": "db:GetPendingProofsByQuote", "g8": "db:RemovePendingProofs",
    "t1": "db:GetMintQuote", "t2": "ln:InvoiceStatus", "t3": "db:UpdateMintQuoteState", "t4": "db:UpdateMintQuoteState",
    "t5": "db:GetBlindSignatures", "t6": "db:UpdateMintQuoteState", "t7": "db:SaveBlindSignatures", "t8": "db:UpdateMintQuoteState",
}
GROUPS = {"crash/melt-poll-swap": (), "crash/swap": ("swap", "swap-fee"),
          "crash/melt": ("melt-success", "melt-pending", "melt-failed", "melt-error-succeeded", "melt-failed-notfound", "melt-error-error"),
          "crash/melt-internal": ("melt-internal",),
          "crash/pollmelt": ("pollmelt-success", "pollmelt-failed", "checkstate-success"),
          "crash/mint": ("mint", "mint-unpolled")}


def crash_windows(sd, code_keys):
    """MintSteps with a crash between any two calls (exhaustive) names the windows after which the restarted mint is damaged for
    good; the crash enumeration on the real mint (code_keys: finding keys `victim|crash-before:<call>#n|...`) names its own.
    Both sets are compared per kind of request, by the call the process died in front of."""
    t0 = time.time()
    cs = crash_scenarios()
    fs = [dict(s, crash=False, faults=True, name=s["name"].replace("crash/", "fault/")) for s in cs]
    with ThreadPoolExecutor(max_workers=6) as pool:
        allres = list(pool.map(lambda s: run_design(sd, s), cs + fs))
    res, fres = allres[:len(cs)], allres[len(cs):]
    out = {}
    agree = True
    for r in fres:
        if "violated" in r:
            raise Infra("MintSteps %s violates %s (fault windows are reported, not failed on): %s" % (r["scenario"], r["violated"], r["schedule"]))
        grp = GROUPS[r["scenario"].replace("fault/", "crash/")]
        model = {}
        for w in r["fault_windows"]:
            model.setdefault(PC_CALL.get(w["at"][1], w["at"][1]), set()).update(w["damage"])
        code = {}
        for k in code_keys:
            v, how, why = k.split("|", 2)
            if v in grp and how.startswith("error-before:"):
                code.setdefault(how[len("error-before:"):].split("#")[0], set()).add(why)
        same = set(model) == set(code) or not grp
        agree = agree and same
        out[r["scenario"]] = {"model": {c: sorted(d) for c, d in sorted(model.items())}, "real_mint": {c: sorted(d) for c, d in sorted(code.items())},
                              "agree": same, "states": r["distinct"]}
    for r in res:
        if "violated" in r:
            raise Infra("MintSteps %s violates %s (crash windows are reported, not failed on): %s" % (r["scenario"], r["violated"], r["schedule"]))
        model = {}
        for w in r["crash_windows"]:
            for pc in w["at"].values():
                model.setdefault(PC_CALL.get(pc, pc), set()).update(w["damage"])
        code = {}
        for k in code_keys:
            v, how, why = k.split("|", 2)
            if v in GROUPS[r["scenario"]] and how.startswith("crash-before:"):
                code.setdefault(how[len("crash-before:"):].split("#")[0], set()).add(why)
        same = set(model) == set(code) or not GROUPS[r["scenario"]]
        agree = agree and same
        out[r["scenario"]] = {"model": {c: sorted(d) for c, d in sorted(model.items())}, "real_mint": {c: sorted(d) for c, d in sorted(code.items())},
                              "agree": same, "states": r["distinct"]}
    return {"per_request_kind": out, "agree": agree, "states_generated": sum(r["generated"] for r in allres),
            "distinct_states": sum(r["distinct"] for r in allres), "wall_s": round(time.time() - t0, 1),
            "note": "agreement binds the model's crash semantics to the code's; a difference is model drift or a changed window - the "
                    "verdict on every window comes from the execution on the real mint"}


def dry_conformance(sd, scns, dry_runs):
    """The call sequence of every victim operation of the crash enumeration (fault-free dry run on the real mint) validated
    against MintSteps."""
    es, index, n = [], [], 0
    for s in scns:
        calls = [r["calls"] for r in dry_runs if r["scenario"] == s["name"]]
        if not calls or s["victim"]["op"] in ("rotate", "restart"):
            continue
        n += 1
        es.append({"name": s["name"], "prefix": s["prefix"], "conc": [s["victim"]]})
        index.append({"tr": n, "scenario": s["name"], "schedule": ["p1:start:" + s["victim"]["op"]] + ["p1:" + c for c in calls[0]]})
    return conformance(sd, es, {"index": index}, {})


# ---- keyset lifecycle at call level ----

ROTATE_CALLS = ["db:GetSeed", "db:UpdateKeysetActive", "db:SaveKeyset"]    # RotateKeyset in KeysetSteps.tla: r1, r2, r3


def keyset_model(sd, max_rot=None):
    """KeysetSteps.tla: RotateKeyset + LoadMint recovery with crashes between any two storage calls and one failing call, exhaustive.
    The recovery of the code ("latest") must satisfy every invariant; "oldest" (a seeded change) and "none" (the code before 6a5ae38)
    must be rejected."""
    max_rot = max_rot or (4 if tier() == "quick" else 7)
    max_crash = 3 if tier() == "quick" else 6
    out = {}
    for variant in ("latest", "oldest", "none"):
        d = _sd(sd, "ks_" + variant)
        with open(os.path.join(d, "KeysetRun.cfg"), "w") as f:
            f.write("SPECIFICATION Spec\nCHECK_DEADLOCK FALSE\nCONSTANTS\n  MaxRot = %d\n  MaxCrash = %d\n  Recovery = \"%s\"\n" % (max_rot, max_crash, variant) +
                    "INVARIANT Inv_OneActive\nINVARIANT Inv_Unchanged\nINVARIANT Inv_CanStart\nINVARIANT Inv_Rows\n")
        rc, txt, dt = tlc(d, "KeysetSteps.tla", "KeysetRun.cfg", workers=2, timeout=600, xmx="2g")
        m = re.search(r"(\d+) states generated, (\d+) distinct states found", txt)
        v = re.search(r"Invariant (\w+) is violated", txt)
        if not v and "No error has been found" not in txt:
            shutil.rmtree(d, ignore_errors=True)
            raise Infra("TLC failed on KeysetSteps (%s):\n%s" % (variant, txt[-2000:]))
        out[variant] = {"violated": v.group(1) if v else None, "generated": int(m.group(1)) if m else 0, "distinct": int(m.group(2)) if m else 0}
        shutil.rmtree(d, ignore_errors=True)
    if out["latest"]["violated"]:
        raise Infra("KeysetSteps: the recovery of the current code violates %s in the model (to be reproduced on the real mint)" % out["latest"]["violated"])
    if not out["oldest"]["violated"] or not out["none"]["violated"]:
        raise Infra("KeysetSteps accepted a defective recovery variant (vacuous?): %s" % out)
    return {"max_rotations": max_rot, "max_crashes": max_crash, "variants": out, "states_generated": sum(x["generated"] for x in out.values()),
            "distinct_states": sum(x["distinct"] for x in out.values())}


def rotation_calls_match(dry_runs):
    """The storage calls of the rotation victims of the crash enumeration (dry runs on the real mint) against the model's order."""
    res = {}
    for r in dry_runs:
        if r["scenario"] in ("rotate", "rotate-again"):
            calls = [c for c in r["calls"] if c.startswith("db:")]
            res[r["scenario"]] = {"calls": calls, "matches_model": calls == ROTATE_CALLS}
    return res


# ---- model-guided schedules: behaviours of MintSteps replayed on the real mint ----

PAYMAP = {"succeeded": "success", "pending": "pending", "failed": "failed", "error": "error"}


def model_behaviours(sd, ms, num, depth, seed_):
    """TLC -simulate on MintSteps for scenario ms: a list of behaviours, each a list of (request, call, Lightning answer)."""
    d = _sd(sd, "sim_" + ms["name"])
    with open(os.path.join(d, "MintStepsSim.cfg"), "w") as f:
        f.write("SPECIFICATION Spec\nCHECK_DEADLOCK FALSE\n")
    sf = os.path.join(d, "scn.json")
    with open(sf, "w") as f:
        json.dump(ms, f)
    os.makedirs(os.path.join(d, "sim"), exist_ok=True)
    rc, out, dt = tlc(d, "MintSteps.tla", "MintStepsSim.cfg", ["-simulate", "file=sim/b,num=%d" % num, "-depth", str(depth), "-seed", str(seed_)],
                      env={"VERIF_SCN": sf}, workers=1, timeout=600, xmx="2g")
    files = sorted(os.listdir(os.path.join(d, "sim")))
    if not files:
        shutil.rmtree(d, ignore_errors=True)
        raise Infra("TLC simulation of MintSteps produced no behaviour:\n%s" % out[-2000:])
    res = []
    for fn in files:
        with open(os.path.join(d, "sim", fn)) as f:
            txt = f.read()
        b = [(p, c, a) for p, c, a in re.findall(r'/\\ last = <<"([^"]*)", "([^"]*)", "([^"]*)">>', txt) if p and p != "env" and c != "return"]
        if b:
            res.append(b)
    shutil.rmtree(d, ignore_errors=True)
    return res


def guided_scenarios(sd, templates, num, seed_):
    """For every template (an explorer scenario whose concurrent requests MintSteps models): behaviours of MintSteps, each turned into
    one explorer scenario with that schedule fixed (lenient) and the Lightning answers of the behaviour scripted."""
    out, stats = [], {}
    for es in templates:
        ms = to_steps_scenario(es)
        if ms is None:
            raise Infra("template %s is not modelled by MintSteps" % es["name"])
        ms["ln"] = "truth"
        seen = set()
        kinds = {p["id"]: p for p in ms["procs"]}
        for b in model_behaviours(sd, ms, num, 120, seed_):
            key = tuple(b)
            if key in seen:
                continue
            seen.add(key)
            e = json.loads(json.dumps(es))
            e["name"] = "%s#%d" % (es["name"], len(seen))
            # the explorer's names: a notification is the environment step n<i>, the watcher it wakes runs as bg1
            def xname(p, c):
                if kinds[p]["kind"] == "notify":
                    return ("n" + p[1:]) if c == "env:notify" else "bg1"
                return p
            e["schedules"] = [[xname(p, c) for p, c, _ in b]]
            e["lenient"] = True
            e["model_schedule"] = ["%s:%s" % (p, c) for p, c, _ in b]
            started = []
            for p, c, _ in b:
                if c.startswith("start:") or c == "env:notify":
                    started.append(p)
            quotes = sorted({kinds[p]["q"] for p, c, a in b if c.startswith("ln:") and kinds[p]["kind"] in ("melt", "pollmelt")})
            for q in quotes:
                pays = [PAYMAP[a] for p, c, a in b if c == "ln:SendPayment" and kinds[p]["q"] == q]
                stats_ = [a for p, c, a in b if c == "ln:OutgoingPaymentStatus" and kinds[p]["q"] == q and kinds[p]["kind"] in ("melt", "pollmelt")]
                first_any = [p for p in started if kinds[p]["q"] == q and kinds[p]["kind"] in ("melt", "pollmelt")]
                first_melt = [p for p in started if kinds[p]["q"] == q and kinds[p]["kind"] == "melt"]
                if pays and first_melt:
                    e["conc"][int(first_melt[0][1:]) - 1]["pay"] = pays
                if stats_ and first_any:
                    e["conc"][int(first_any[0][1:]) - 1]["status"] = stats_
            out.append(e)
        stats[es["name"]] = {"behaviours": num, "distinct": len(seen)}
    return out, stats
