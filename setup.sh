#!/bin/sh
# Build everything the checks need from files on disk only (offline).
set -e
cd "$(dirname "$0")"
export GOFLAGS=-mod=mod GOPROXY=off
unset GOTOOLCHAIN GOSUMDB || true
mkdir -p out/tmp bin evidence
export TMPDIR="$PWD/out/tmp"
sh harness/gen_gomod.sh
(cd harness && go build -tags verif -o ../bin/vharness ./cmd/vharness)
if ls spec/*.java >/dev/null 2>&1; then
  javac -cp /opt/veriftools/tla/tla2tools.jar:/opt/veriftools/tla/CommunityModules-deps.jar -d spec spec/*.java
fi
echo setup ok
